#!/usr/bin/env python3
"""bin/seedreport.py — regenerate seeded/README.md (header + one table row per seeded change) from seeded/*/meta.json"""
import glob, json, os, re

VERIF = os.path.dirname(os.path.dirname(os.path.abspath(__file__)))
HEAD = """# Seeded changes

Each directory holds `patch.diff` (a change to ARCJ137442/Narsese.rs that compiles and passes the 157 existing tests), `demo.rs` (an integration test that passes without the change and fails with it) and `meta.json` (what it needs in order to manifest, what was run). The changes were written by sub-agents that saw only the property text (waves 2 and 3: plus a description of what kind of enumeration had caught the previous wave; wave 4: plus one sentence saying that many small and many random inputs are tested) and a scratch worktree; each was confirmed in a fresh worktree by `bin/seedtest` and then run through the quick check(s) with the change applied (waves 1-2: to /repo, then reverted; waves 3-4: to a scratch worktree via `VERIF_REPO`).

* Wave 1 (30 changes, ids `Cxx-…`): all caught.
* Wave 2 (17 subtler changes, ids `W2-…`): 6 caught at once, 11 missed; after the universes were extended all 17 are caught.
* Wave 3 (17 changes, ids `W3-…`, aimed past the extended universes): 8 caught at once (4 of them because of strengthening done after reading the agents' reports but before the run: cross-thread construction, hash-colliding near misses, long images, huge root indexes), 9 missed; after another round of extensions (column *after*) all 17 are caught.
* Wave 4 (17 changes, ids `W4-…`, written after the seeded random stages of DESIGN §13.5 were in place; each had to need something specific to manifest): 15 caught at once, 2 missed (a hash that samples the first 32 elements of a set; a lexical stamp character class that lost `+`, asked of C15 / C03 – C02 caught the same change); after the extensions (sets of 33 … 257 elements, wide nodes in the random values, texts written by the lexical formatter for C03, signed lexical stamps in C15) all 17 are caught.
* Wave 5 (17 changes, ids `W5-…`, unusual triggers: relations inside one input, same-thread history, Unicode properties, uncommon boundaries; run against the machinery as committed before the wave, column *quick check result*): 11 caught at once, 6 missed; after the extensions described in DESIGN §13.4 (column *after*) all 17 are caught. `W5-C01-enum-name-invisible-chars` does not violate C01 by C01's own definition of well-formed names (the name is no longer an identifier of the format); it is caught as a disagreement between the enum and the lexical name alphabets by C03's vocabulary clause.
* Wave 6 (17 changes, ids `W6-…`, format-specific keyword interactions, adjacent-token pairs, direct nesting, item combinations; the agents were additionally told in a few sentences what kinds of inputs the framework enumerates; run against the machinery as committed before the wave): 9 caught at once, 8 missed; after the extensions of DESIGN §13.4 (column *after*) all 17 are caught. The extension for `W6-C01-han-parallel-prefix` uncovered the genuine finding F11.
* Wave 7 (16 changes, ids `W7-…`, "what is such a framework still blind to": state outside the input, alternative entry points, iterator kinds, address-keyed caches; run against the machinery as committed before the wave): 7 caught at once, 9 missed – all of them blind spots of the harness (which instance, entry point or iterator it uses), not of the universes; after the extensions of DESIGN §13.4 all 16 are caught.

| seed | breaks | demo without / with | suite with | quick check result | after strengthening |
|---|---|---|---|---|---|
"""
NOTES = """
Notes: `C11-swap-temporal-implication` keeps C01 (exit 0) by construction: formatter and parser drift together, only the published lexicon (C11) can tell. `C14-parallel-conj-capacity-vec` keeps C17 (push_components still unites). `W2-C04-truth-ulp-tolerance` panics instead of returning an ill-formed value, so C12 is not violated by it. `W3-C15-han-future-stamp-keyword` is a vocabulary disagreement between the enum and the lexical Han tables: C03's vocabulary clause reports it. `W4-C05-image-placeholder-pos` panics in the fold, so C12 (well-formedness of what IS returned) is not violated by it.
"""


def cell(checks):
    out = []
    for p, r in checks.items():
        tags = ""
        m = re.search(r"tags=\[([^\]]*)\]", r.get("detail") or "")
        if m:
            tags = " `" + m.group(1).replace("'", "")[:64] + "`"
        out.append(f"{p}: exit {r['exit']}{tags}")
    return "; ".join(out)


def key(d):
    n = os.path.basename(d)
    return (0 if re.match(r"C\d\d-", n) else int(n[1]), n)


rows = []
for d in sorted(glob.glob(os.path.join(VERIF, "seeded", "*", "meta.json")), key=lambda f: key(os.path.dirname(f))):
    m = json.load(open(d, encoding="utf-8"))
    rows.append(f"| {os.path.basename(os.path.dirname(d))} | {m['property']} | {m['demo_without_change']} / {m['demo_with_change']} | {m['suite_with_change']} | "
                f"{cell(m['checks'])} | {cell(m.get('checks_after_strengthening', {}))} |")
open(os.path.join(VERIF, "seeded", "README.md"), "w", encoding="utf-8").write(HEAD + "\n".join(rows) + "\n" + NOTES)
print(len(rows), "rows")
