#!/usr/bin/env python3
"""Regenerate MANIFEST.json from the table of claimed checks below (keeps the file valid at all times)."""
import json, os
V = os.path.dirname(os.path.dirname(os.path.abspath(__file__)))
props = [json.loads(l) for l in open(os.path.join(V, "properties.jsonl"))]

CLAIMS = {
    "C01": dict(
        technique="TLA+ transcription of the enum formatter and parser (EnumFormat.tla, EnumParser.tla = state machine M1) model-checked by TLC on the vocabulary dumped from the code; every explored value replayed through the real formatter and parser and judged by a TLC trace specification",
        text="TLC checks ModelParse(ModelFormat(v)) = v on the code's own keyword tables for a bounded-exhaustive universe (all 30 constructors over an atom pool, every image index, depth-2 terms, sentences and tasks over all punctuations, stamp kinds incl. isize extremes, truth and budget arities) in all three formats; each value is formatted and re-parsed by the real library and TLC compares the projected result with the value on canonical forms. Model/code disagreement that does not contradict the property is reported as DRIFT. Bounded, not a proof for all values; adversarial Han names are covered by the name stage (known finding F7).",
        design_ref="DESIGN.md §7 C01",
        note="assumes names from pools that contain no keyword of the format under test, except in the adversarial-name stage; deep nesting beyond depth 2 only through the seeded driver"),
    "C02": dict(
        technique="TLA+ transcription of the lexical formatter and parser (LexParser.tla, window machine M8) checked by TLC on the dumped lexical tables; each value replayed through the real lexical formatter and parser, judged field for field by TLC",
        text="Vocabulary-consistent lexical values (every connecter with 1..4 components, both set brackets, all copulas, nesting <= 2, 0..3 truth entries, 0..4 budget entries, all stamp forms, every term ending) are enumerated by TLC, the model round trip and the length invariant are checked, and the real round trip is compared structurally.",
        design_ref="DESIGN.md §7 C02",
        note="names contain no keyword of the format (the statement's own restriction)"),
    "C03": dict(
        technique="TLC checks vocabulary agreement of the dumped enum and lexical tables (MC_Vocab.tla) and generates texts (values of C01's universe formatted by the real formatter; sugar texts of Sugar.tla); both real pipelines are run on every text and judged by the TLC trace specification J_Pipe",
        text="Both pipelines must accept every generated text and return the value the text was generated from; the enum and lexical tables of each format must describe the same keywords for every constructor. Bounded-exhaustive over the universes of C01 and C10.",
        design_ref="DESIGN.md §7 C03",
        note="same universes and name pools as C01 / C10"),
    "C04": dict(
        technique="TLA+ model of the enum parser's cursor/slot machine M1 explored by TLC over all token strings up to a bound and over edited well-formed texts (state invariants: every error window can be sliced, every step advances); every string, plus seeded long/deep inputs, run through all real enum entry points under a watchdog and judged by TLC",
        text="Exhaustive over token strings of length <= 3 (quick) / 4 (thorough) from a 44-token alphabet per format and over single (double) token/character edits of well-formed texts; sampled for long (<= 512 chars), deep (<= 64) and arbitrary-Unicode inputs. A panic, a timeout or an undisplayable error of any entry point is a violation; lenient acceptance is not.",
        design_ref="DESIGN.md §7 C04",
        note="bounded time is decided by a 5 s watchdog per input; memory safety beyond 'no panic observed' is not claimed"),
    "C05": dict(
        technique="TLA+ model of the lexical parser's window machine M8 and of fold (LexParser.tla, Fold.tla) explored by TLC over the same string universes and over arbitrary lexical values (MC_FoldAny.tla); real lexical parse / parse_term / fold run on every case and judged by TLC",
        text="As C04 for the lexical parser (window and length invariants in the model, no panic / timeout on the real code), plus folding of arbitrary lexical values: unknown prefixes / connecters / copulas / brackets, every arity 0..3 per connecter, missing or repeated placeholders, non-numeric and out-of-range number strings, malformed stamps and punctuations.",
        design_ref="DESIGN.md §7 C05",
        note="as C04"),
    "C06": dict(
        technique="TLA+ model M4 of Term equality/hashing with the hidden iteration order of every HashSet instance as nondeterministic state (EqHash.tla), model-checked by TLC for all orders; recipe pairs (construction histories) replayed on the real code several times and judged by TLC",
        text="TLC checks for all pairs of built terms of depth <= 2 and ALL iteration orders that the transcribed PartialEq is canonical equality, symmetric and reflexive (negative control: the pinned tree's order-dependent Hash violates it). The real == is observed on thousands of recipe pairs (permuted / duplicated insertion orders, swapped symmetric operands, near misses), repeated with fresh random states, on triples for transitivity and on double parses.",
        design_ref="DESIGN.md §7 C06/C07",
        note="hash collisions of the std hashers are ignored; nesting depth of the conformance universe <= 3"),
    "C07": dict(
        technique="same model M4 (EqHash.tla): invariant 'canonically equal terms feed equal hash input' checked by TLC for all iteration orders; real hashes (DefaultHasher, RandomState), HashSet.contains and HashMap.get observed on recipe pairs and judged by TLC",
        text="Whenever the two recipes of a pair denote the same canonical value, the real terms must hash equally under a fixed and under a fresh random hasher and must be found in a HashSet / HashMap keyed by the other; also for two parses of the same text.",
        design_ref="DESIGN.md §7 C06/C07",
        note="as C06"),
    "C08": dict(
        technique="TLA+ state machine M1 with the input queue (MC_C08.tla: actions ResetTo, Consume over a fragment pool) model-checked by TLC for all input sequences up to a bound, with a negative control; every sequence replayed through the real parse_multi and judged by TLC",
        text="All sequences of length 3 (quick) / 4 (thorough) over 16 fragments per format (complete, partial, invalid inputs that leave different slots filled) are explored; invariant: every result equals the fresh parse. The real parse_multi is compared position by position with fresh parse, second parse and parse_chars, and the lexical parser is run along the same history.",
        design_ref="DESIGN.md §7 C08",
        note="exhaustive over the fragment pool only"),
    "C09": dict(
        technique="token-level model of the formatter (EnumFormat.tla) with explicit spacings as TLC state; TLC checks the model parser on every explored spacing and emits the spaced texts for both real pipelines (and the macros), judged by TLC",
        text="Per value: 0/1/2 spaces everywhere, every single boundary opened alone and closed alone (exhaustive over the boundaries of each explored value), a wide gap, pseudo-random spacings, and tab/newline/U+3000 for the lexical pipeline. Both real pipelines must return the value.",
        design_ref="DESIGN.md §7 C09",
        note="atom = one token, number = one token (DESIGN §9c)"),
    "C10": dict(
        technique="independent TLA+ statement of the sugar's meaning (Sugar.tla: Desugar) checked by TLC against the model parser; sugar texts run through both real pipelines and judged against Desugar by TLC",
        text="The four derived copulas over an operand pool, image component lists with one or two placeholders at every position, raw interval / placeholder texts, duplicated set components, nested under every parent kind and under sentences / tasks; both real pipelines must return Desugar(tree).",
        design_ref="DESIGN.md §7 C10",
        note="operand pool bounded (atoms, one compound per shape, sample/all of U1)"),
    "C11": dict(
        technique="rule-by-rule TLA+ transcription of the README PEG (Peg.tla) and of the published lexicon; TLC runs the grammar on the REAL ASCII output of both formatters and compares kind and derivation tree with the library's lexical parser",
        text="The dumped ASCII tables (enum and lexical) must equal the published lexicon; the grammar must accept every real ASCII string with the value's kind and derive the tree the library's ASCII lexical parser returns. Detects formatter and parser drifting together away from the published grammar.",
        design_ref="DESIGN.md §7 C11",
        note="Unicode categories are written out for the characters that can occur (ASCII + name pool)"),
    "C12": dict(
        technique="well-formedness predicates in TLA+ (Values.tla) as invariants of the parser / fold models over the garbage universes; every Ok result of the real enum parser and of real fold judged by TLC",
        text="Over the string universes of C04/C05 and the arbitrary lexical values of MC_FoldAny: every accepted value must satisfy WFParsed / WFFolded (ranges, image index, names, emptiness, arity) and be formattable in all three formats and Typst without panic.",
        design_ref="DESIGN.md §7 C12",
        note="fold results are held to ranges and image index only (DESIGN §9d)"),
    "C13": dict(
        category="exploration",
        technique="TLA+ model of the constructors over a partition of f64 into 11 classes (Numbers.tla); TLC enumerates all class tuples, the harness instantiates them with concrete bit patterns, TLC judges the observations",
        text="Exploration by partition: all tuples of float classes of arity 0..3 (quick) / 0..5 (thorough), several concrete floats per class incl. boundaries (1+ulp, largest below 1, subnormals, -0.0, NaNs, infinities). Decides constructor outcome, panic <=> Err, stored bits, accessor panics, is_valid / try_validate / validate agreement, root of valid is valid. A defect affecting a single float inside a class is invisible.",
        design_ref="DESIGN.md §7 C13, §2",
        note="TLC has no floats: the property is decided on classes; class membership of the concrete bit patterns is trusted"),
    "C14": dict(
        technique="TLA+ model (TermOps.tla: accessor laws, ImageIterator state machine M5) checked by TLC; every model value replayed on the real accessors and judged by a TLC trace specification",
        text="TLC explores the ImageIterator machine for every (length, index) up to the bound and the accessor/category/capacity laws on a bounded-exhaustive universe of terms (every constructor, every image index, unordered and nested shapes); each explored value is sent to the real library and the recorded answers are judged by TLC against the same operators. Bounded-exhaustive, not a proof for all terms.",
        design_ref="DESIGN.md §7 C14",
        note="assumes the JSON projection of terms is faithful; deep nesting beyond depth 2 is not enumerated"),
    "C15": dict(
        technique="TLA+ state machine M3 of a Narsese value under the conversion API (Lifecycle.tla) explored by TLC for all operation sequences; behaviours replayed on real values of both data models and judged step by step; item-subset classification through both parsers",
        text="All operation sequences of length 3 (quick) / 4 (thorough) from term / sentence / task values of both models; the conversion equations are invariants. All 32 item subsets x junction terms x spacings x formats for the classification clause. The kind clause of format-then-parse is additionally checked on every round trip of C01.",
        design_ref="DESIGN.md §7 C15",
        note="classification is asserted only for inputs that carry a term and that a parser accepts (DESIGN §9e)"),
    "C16": dict(
        technique="TLA+ layout model of the Typst renderer (Typst.tla) on the dumped constants: TLC checks injectivity on the universe by cardinalities and normalisation; real renderings judged by a TLC trace specification that keeps the history of (text, value) pairs (M6)",
        text="Every value of the universe is rendered several times from freshly built copies; no panic, character-wise whitespace normalisation, agreement of the copies up to component order, and over the whole run no text may stand for two different values (complete pairwise decision through set cardinalities).",
        design_ref="DESIGN.md §7 C16",
        note="collisions are searched among the values of one run only"),
    "C17": dict(
        technique="TLA+ state machine of the two mutators (Mutators.tla) explored by TLC; each behaviour replayed on a real Term and judged step by step by a TLC trace specification",
        text="All operation sequences up to the bound over a fixed pool of name arguments and component lists, from one start term per constructor and shape, are explored by TLC (invariants + action properties) and every behaviour is replayed on the real code, comparing result, post-state and name accessor after each step. Arguments outside the pool are not covered.",
        design_ref="DESIGN.md §7 C17",
        note="name arguments and component lists come from a fixed pool chosen to cover every branch of usize parsing and every capacity class"),
}

checks = []
for p in props:
    pid = p["id"]
    if pid not in CLAIMS:
        continue
    c = CLAIMS[pid]
    checks.append({
        "property_id": pid,
        "quick_cmd": f"bin/check {pid} quick",
        "thorough_cmd": f"bin/check {pid} thorough",
        "evidence_file": f"/verif/evidence/{pid}.json",
        "replay_cmd_template": f"bin/check {pid} --replay {{path}}",
        "engine": "tlc+nv",
        "level_claimed": {"category": c.get("category", "model_checking"), "text": c["text"], "design_ref": c["design_ref"]},
        "level_note": c["note"],
        "technique": c["technique"],
    })
na = [{"property_id": p["id"], "reason": "check still under construction in this build (specification modules listed in DESIGN.md §3); not yet claimed"}
      for p in props if p["id"] not in CLAIMS]
m = {
    "version": 1,
    "setup_cmd": "cd harness && cargo build --release --offline",
    "hooks": {
        "guard": "narsese_verif",
        "enable": "rustflags --cfg narsese_verif in /verif/harness/.cargo/config.toml (the harness has a path dependency on /repo, so every check rebuilds the library from the current working tree with the flag on)",
        "baseline_off_cmd": "cd /repo && cargo test --workspace --no-fail-fast --offline",
        "source_commits": ["ad7099c", "9859f08"],
        "add_only": True,
    },
    "engines": [{"name": "tlc+nv", "path": "bin/check", "serves_properties": [c["property_id"] for c in checks],
                 "kind_free_text": "TLA+ specification (spec/*.tla) model-checked by TLC; TLC-generated cases replayed into the real library by the Rust harness nv; observations judged by TLC trace specifications (spec/J_*.tla)"}],
    "checks": checks,
    "not_applicable": na,
    "notes": "bin/check <id> quick|thorough [--selftest] [--replay path]; exit 0 held, 1 VIOLATION, 2 tool error. known_findings.txt lists repaired (fixed:) and open findings.",
}
json.dump(m, open(os.path.join(V, "MANIFEST.json"), "w"), indent=1)
print("claimed:", [c["property_id"] for c in checks])
