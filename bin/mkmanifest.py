#!/usr/bin/env python3
"""Regenerate MANIFEST.json from the table of claimed checks below (keeps the file valid at all times)."""
import json, os
V = os.path.dirname(os.path.dirname(os.path.abspath(__file__)))
props = [json.loads(l) for l in open(os.path.join(V, "properties.jsonl"))]

CLAIMS = {
    "C14": dict(
        technique="TLA+ model (TermOps.tla: accessor laws, ImageIterator state machine M5) checked by TLC; every model value replayed on the real accessors and judged by a TLC trace specification",
        text="TLC explores the ImageIterator machine for every (length, index) up to the bound and the accessor/category/capacity laws on a bounded-exhaustive universe of terms (every constructor, every image index, unordered and nested shapes); each explored value is sent to the real library and the recorded answers are judged by TLC against the same operators. Bounded-exhaustive, not a proof for all terms.",
        design_ref="DESIGN.md §7 C14",
        note="assumes the JSON projection of terms is faithful; deep nesting beyond depth 2 is not enumerated"),
    "C17": dict(
        technique="TLA+ state machine of the two mutators (Mutators.tla) explored by TLC; each behaviour replayed on a real Term and judged step by step by a TLC trace specification",
        text="All operation sequences up to the bound over a fixed pool of name arguments and component lists, from one start term per constructor and shape, are explored by TLC (invariants + action properties) and every behaviour is replayed on the real code, comparing result, post-state and name accessor after each step. Arguments outside the pool are not covered.",
        design_ref="DESIGN.md §7 C17",
        note="name arguments and component lists come from a fixed pool chosen to cover every branch of usize parsing and every capacity class"),
}

checks = []
for p in props:
    pid = p["id"]
    if pid not in CLAIMS:
        continue
    c = CLAIMS[pid]
    checks.append({
        "property_id": pid,
        "quick_cmd": f"bin/check {pid} quick",
        "thorough_cmd": f"bin/check {pid} thorough",
        "evidence_file": f"/verif/evidence/{pid}.json",
        "replay_cmd_template": f"bin/check {pid} --replay {{path}}",
        "engine": "tlc+nv",
        "level_claimed": {"category": c.get("category", "model_checking"), "text": c["text"], "design_ref": c["design_ref"]},
        "level_note": c["note"],
        "technique": c["technique"],
    })
na = [{"property_id": p["id"], "reason": "check still under construction in this build (specification modules listed in DESIGN.md §3); not yet claimed"}
      for p in props if p["id"] not in CLAIMS]
m = {
    "version": 1,
    "setup_cmd": "cd harness && cargo build --release --offline",
    "hooks": {
        "guard": "narsese_verif",
        "enable": "rustflags --cfg narsese_verif in /verif/harness/.cargo/config.toml (the harness has a path dependency on /repo, so every check rebuilds the library from the current working tree with the flag on)",
        "baseline_off_cmd": "cd /repo && cargo test --workspace --no-fail-fast --offline",
        "source_commits": [],
        "add_only": True,
    },
    "engines": [{"name": "tlc+nv", "path": "bin/check", "serves_properties": [c["property_id"] for c in checks],
                 "kind_free_text": "TLA+ specification (spec/*.tla) model-checked by TLC; TLC-generated cases replayed into the real library by the Rust harness nv; observations judged by TLC trace specifications (spec/J_*.tla)"}],
    "checks": checks,
    "not_applicable": na,
    "notes": "bin/check <id> quick|thorough [--selftest] [--replay path]; exit 0 held, 1 VIOLATION, 2 tool error. known_findings.txt lists repaired (fixed:) and open findings.",
}
json.dump(m, open(os.path.join(V, "MANIFEST.json"), "w"), indent=1)
print("claimed:", [c["property_id"] for c in checks])
