"""Per-property plans for bin/check: which TLA+ modules generate the cases, which judge decides them."""
import json, os, random, re, shutil

CFG_J = "INIT Init\nNEXT Next\nPOSTCONDITION Done\nCHECK_DEADLOCK FALSE\n"
TRUSTED = [
    "TLC evaluates the TLA+ operators correctly",
    "the harness projects values to JSON faithfully (it contains no oracle; DESIGN §6.2)",
    "vocabulary and character classes are read from the code's own public tables and predicates",
]


def consts(**kw):
    return "".join(f"CONSTANT {k} = {v}\n" for k, v in kw.items())


# ------------------------------------------------------------------------------------------------ C17
def plan_c17(K, ctx):
    depth = 2 if ctx.tier == "quick" else 3
    cfg = ("SPECIFICATION Spec\n" + consts(DEPTH=depth) +
           "INVARIANT KindStable\nINVARIANT ImageIndexOK\nINVARIANT NameReadBack\nINVARIANT Emit\n"
           "PROPERTY ErrChangesNothing\nPROPERTY OkOnlyWhereAllowed\nCHECK_DEADLOCK FALSE\n")

    def nontrivial(c):
        # a behaviour is non-trivial when its start term is not a plain word and the operations are not all identical
        ops = [json.dumps(o, sort_keys=True) for o in c["ops"]]
        return c["t"]["k"] != "Word" and len(set(ops)) > 1

    K.pipeline(ctx, "ascii", "c17", "MC_C17", cfg, "J_C17", nontrivial, shards=4 if ctx.tier == "thorough" else 1)
    return {
        "note": f"M2 (Mutators.tla): all behaviours of length {depth} over {{18 name arguments, 6 component lists}} from one start term per "
                "constructor and shape, explored exhaustively by TLC (invariants KindStable, ImageIndexOK, NameReadBack; action properties "
                "ErrChangesNothing, OkOnlyWhereAllowed); every behaviour replayed on a real Term and judged step by step by J_C17.",
        "rule": "one case = (start term, operation sequence); non-trivial = start term is not a Word and the operations are not all identical; "
                "distinct = distinct command JSON",
        "assumptions": TRUSTED,
    }


# ------------------------------------------------------------------------------------------------ C14
def plan_c14(K, ctx):
    cfg = ("SPECIFICATION Spec\n" + consts(MAXN=4 if ctx.tier == "quick" else 6, TIER=f'"{ctx.tier}"') +
           "INVARIANT IterPrefix\nINVARIANT IterOnePlaceholder\nINVARIANT AccessorLaws\nINVARIANT Emit\nCHECK_DEADLOCK FALSE\n")

    def nontrivial(c):
        if c["op"] == "image_iter":
            return c["n"] >= 1
        return c["t"]["k"] not in ("Word", "Atom")

    def one(fmt):
        # the enum accessors do not depend on the format; the lexical terms (and fold) do
        tr = None if fmt == "ascii" else (lambda c: c if c["op"] == "lex_accessors" else None)
        return lambda: K.pipeline(ctx, fmt, "c14", "MC_C14", cfg, "J_C14", nontrivial, transform=tr, workers=4,
                                  shards=4 if ctx.tier == "thorough" else 1)
    K.parallel([one(f) for f in K.FORMATS])
    return {
        "note": "M5 (ImageIterator) explored as a state machine for every (n, index) with n up to the bound, incl. illegal indexes; accessor / "
                "category / capacity laws checked on the model over U1 (+U2r in the thorough tier); every value sent to the real accessors, "
                "every lexical tree of those values to the lexical accessors and fold, every iterator run replayed step by step.",
        "rule": "one case = one term (enum or lexical) or one iterator run; non-trivial = not a bare word / n >= 1; distinct = distinct command JSON",
        "assumptions": TRUSTED,
    }


PLANS = {
    "C14": plan_c14,
    "C17": plan_c17,
}


# ------------------------------------------------------------------------------------------------ replay / selftest
JUDGE_OF = {"C17": "J_C17", "C14": "J_C14"}


def replay(K, pid, path, seed):
    r = json.load(open(path, encoding="utf-8"))
    ctx = K.Ctx(pid + "_replay", "quick", seed)
    K.sh([K.NV, "dump-vocab", ctx.vocab], 120)
    cmds = os.path.join(ctx.rundir, "replay.cmds.ndjson")
    obs = os.path.join(ctx.rundir, "replay.obs.ndjson")
    open(cmds, "w", encoding="utf-8").write(json.dumps(r["command"], ensure_ascii=False) + "\n")
    K.run_exec(ctx, cmds, obs, threads=1)
    bad = K.run_judge(ctx, r["judge"], r["fmt"], obs, "replay_judge")
    if bad:
        K.log(f"VIOLATION property={pid} replay={path}")
        K.log(f"  tags={bad[0][1]}")
        return 1
    K.log(f"replay of {path}: the property holds on the current tree")
    return 0


def selftest(K, ctx, meta):
    """corrupt recorded observations and require the judge to reject exactly those lines (DESIGN §6.4)"""
    import glob
    ok = True
    for obs in sorted(glob.glob(os.path.join(ctx.rundir, "*.obs.ndjson"))):
        lines = open(obs, encoding="utf-8").read().splitlines()
        if not lines:
            continue
        rnd = random.Random(ctx.seed)
        picks = sorted(rnd.sample(range(len(lines)), min(3, len(lines))))
        changed = []
        for i in picks:
            o = json.loads(lines[i])
            if corrupt(o, rnd):
                lines[i] = json.dumps(o, ensure_ascii=False)
                changed.append(o["id"])
        bad_path = obs + ".corrupt"
        open(bad_path, "w", encoding="utf-8").write("\n".join(lines) + "\n")
        m = re.search(r"_(ascii|latex|han)\.obs\.ndjson$", obs)
        fmt = m.group(1) if m else "ascii"
        judge = meta.get("judge_of", lambda p: JUDGE_OF[ctx.pid])(obs)
        before = len(ctx.violations)
        bad = K.run_judge(ctx, judge, fmt, bad_path, "selftest_" + os.path.basename(obs).split(".")[0])
        got = sorted(i for i, _ in bad)
        K.log(f"SELFTEST {os.path.basename(obs)}: corrupted {changed}, judge rejected {got}")
        ok = ok and set(changed) <= set(got)
        del ctx.violations[before:]
    K.log("SELFTEST " + ("passed" if ok else "FAILED"))
    return 0 if ok else 2


def corrupt(o, rnd):
    """flip one recorded field of an observation in a way the property must notice"""
    ob = o["o"]
    op = o["c"].get("op")
    if op == "mut" and "steps" in ob and len(ob["steps"]) > 1:
        st = ob["steps"][rnd.randrange(1, len(ob["steps"]))]
        st["res"] = "ok" if st["res"] != "ok" else "err"
        return True
    return False
