"""Per-property plans for bin/check: which TLA+ modules generate the cases, which judge decides them."""
import json, os, random, re, shutil

CFG_J = "INIT Init\nNEXT Next\nPOSTCONDITION Done\nCHECK_DEADLOCK FALSE\n"
TRUSTED = [
    "TLC evaluates the TLA+ operators correctly",
    "the harness projects values to JSON faithfully (it contains no oracle; DESIGN §6.2)",
    "vocabulary and character classes are read from the code's own public tables and predicates",
]


def consts(**kw):
    return "".join(f"CONSTANT {k} = {v}\n" for k, v in kw.items())


# ------------------------------------------------------------------------------------------------ C17
def plan_c17(K, ctx):
    depth = 2 if ctx.tier == "quick" else 3
    cfg = ("SPECIFICATION Spec\n" + consts(DEPTH=depth) +
           "INVARIANT KindStable\nINVARIANT ImageIndexOK\nINVARIANT NameReadBack\nINVARIANT Emit\n"
           "PROPERTY ErrChangesNothing\nPROPERTY OkOnlyWhereAllowed\nCHECK_DEADLOCK FALSE\n")

    def nontrivial(c):
        # a behaviour is non-trivial when its start term is not a plain word and the operations are not all identical
        ops = [json.dumps(o, sort_keys=True) for o in c["ops"]]
        return c["t"]["k"] != "Word" and len(set(ops)) > 1

    K.pipeline(ctx, "ascii", "c17", "MC_C17", cfg, "J_C17", nontrivial, shards=4 if ctx.tier == "thorough" else 1)
    # seeded random start terms (depth <= 6) under random histories of 3..8 mutator calls, replayed through M2 step by step
    rnd = random.Random(ctx.seed)
    fixed = ["", "abc", "x-y", "7", "+7", "007", "+", "-1", "-0", "1.5", " 7", "7 ", "7_0", "٣", "18446744073709551615", "18446744073709551616", "²", "4294967296"]
    pool_terms, pool_names = [], []

    def rname():
        k = rnd.random()
        if k < 0.3:
            return rnd.choice(fixed)
        if k < 0.55 and pool_names:
            return rnd.choice(pool_names)
        if k < 0.8:
            return "".join(rnd.choice("0123456789") for _ in range(rnd.randint(1, 24)))
        return rnd.choice(["+", "0", "00", " ", "-"]) + "".join(rnd.choice("0123456789") for _ in range(rnd.randint(1, 21)))

    def muts(r, f):
        t = term_of_value(r["v"])
        pool_terms.append(t)
        pool_names.extend(list(names_in(t))[:3])
        ops = []
        for _ in range(rnd.randint(3, 8) if rnd.random() < 0.95 else rnd.choice([16, 17, 33, 40])):
            if rnd.random() < 0.5:
                ops.append({"op": "set_name", "n": rname()})
            else:
                ops.append({"op": "push", "cs": [rnd.choice(pool_terms[-50:]) for _ in range(rnd.randint(0, 3))]})
        out = [{"op": "mut", "t": t, "ops": ops, "rand": True}]
        # the same history from one of its sub-terms (atoms and inner compounds are reached this way)
        kids = t.get("s") or t.get("q") or [x for x in (t.get("a"), t.get("b")) if x]
        if kids:
            out.append({"op": "mut", "t": rnd.choice(kids), "ops": ops, "rand": True})
        return out
    random_stage(K, ctx, "c17rand", muts, "J_C17", count=2500 if ctx.tier == "quick" else 80000, fmts=["ascii"], nontrivial=nontrivial,
                 shards=2 if ctx.tier == "quick" else 6, split=False)
    return {
        "note": f"M2 (Mutators.tla): all behaviours of length {depth} over {{18 name arguments, 6 component lists}} from one start term per "
                "constructor and shape, explored exhaustively by TLC (invariants KindStable, ImageIndexOK, NameReadBack; action properties "
                "ErrChangesNothing, OkOnlyWhereAllowed); every behaviour replayed on a real Term and judged step by step by J_C17.",
        "rule": "one case = (start term, operation sequence); non-trivial = start term is not a Word and the operations are not all identical; "
                "distinct = distinct command JSON",
        "assumptions": TRUSTED,
    }


# ------------------------------------------------------------------------------------------------ C14
def plan_c14(K, ctx):
    cfg = ("SPECIFICATION Spec\n" + consts(MAXN=4 if ctx.tier == "quick" else 6, TIER=f'"{ctx.tier}"') +
           "INVARIANT IterPrefix\nINVARIANT IterOnePlaceholder\nINVARIANT AbstractionOK\nINVARIANT AccessorLaws\nINVARIANT Emit\nCHECK_DEADLOCK FALSE\n")

    def nontrivial(c):
        if c["op"] == "image_iter":
            return c["n"] >= 1
        return c["t"]["k"] not in ("Word", "Atom")

    def one(fmt):
        # the enum accessors do not depend on the format; the lexical terms (and fold) do
        tr = None if fmt == "ascii" else (lambda c: c if c["op"] == "lex_accessors" else None)
        return lambda: K.pipeline(ctx, fmt, "c14", "MC_C14", cfg, "J_C14", nontrivial, transform=tr, workers=4,
                                  shards=4 if ctx.tier == "thorough" else 1)
    K.parallel([one(f) for f in K.FORMATS])
    # seeded random terms (depth <= 6, up to five components, images with any placeholder position)
    random_stage(K, ctx, "c14rand", lambda r, f: [{"op": "accessors", "t": term_of_value(r["v"]), "rand": True}], "J_C14",
                 count=3000 if ctx.tier == "quick" else 100000, fmts=["ascii"], nontrivial=nontrivial, shards=2 if ctx.tier == "quick" else 6, split=False)
    # unbounded n: Apalache discharges the inductive invariant of the integer abstraction of M5 (spec/apalache/IterInd.tla)
    steps = [("init", ["--init=Init", "--inv=IndInv", "--length=0"]), ("step", ["--init=IndInit", "--inv=IndInv", "--length=1"]),
             ("safety", ["--init=IndInit", "--inv=Safety", "--length=0"])]
    proved = 0
    for name, args in steps:
        out = os.path.join(ctx.rundir, f"apalache_{name}")
        p = K.sh(["apalache-mc", "check", f"--out-dir={out}", *args, "IterInd.tla"], 900, cwd=os.path.join(K.SPEC, "apalache"))
        if "EXITCODE: OK" in (p.stdout or ""):
            proved += 1
        elif "EXITCODE: ERROR (12)" in (p.stdout or "") or "violat" in (p.stdout or "").lower():
            ctx.model_alarms.append(f"Apalache: inductive obligation '{name}' of IterInd does not hold")
        else:
            raise K.ToolError("apalache-mc failed on IterInd (" + name + "):\n" + (p.stdout or "")[-1500:])
    ctx.notes.append(f"apalache obligations discharged: {proved}/3")
    return {
        "note": "Apalache proves, for an unbounded number of components, the inductive invariant of the integer abstraction of the iterator "
                "(Init => IndInv; IndInv /\\ Next => IndInv'; IndInv => Safety) and TLC checks on every explored concrete state that it maps into "
                "that invariant (AbstractionOK). M5 (ImageIterator) explored as a state machine for every (n, index) with n up to the bound, incl. illegal indexes; accessor / "
                "category / capacity laws checked on the model over U1 (+U2r in the thorough tier); every value sent to the real accessors, "
                "every lexical tree of those values to the lexical accessors and fold, every iterator run replayed step by step.",
        "rule": "one case = one term (enum or lexical) or one iterator run; non-trivial = not a bare word / n >= 1; distinct = distinct command JSON",
        "assumptions": TRUSTED,
    }


# ------------------------------------------------------------------------------------------------ C13
F64_CLASSES = {   # concrete bit patterns per class (first = canonical representative)
    "neg_inf": ["fff0000000000000"],
    "neg": ["bff0000000000000", "8000000000000001", "bfe0000000000000", "ffefffffffffffff", "bc00000000000000"],
    "neg_zero": ["8000000000000000"],
    "pos_zero": ["0000000000000000"],
    "subnormal": ["0000000000000001", "000fffffffffffff", "0000000000001000"],
    "mid": ["3fe0000000000000", "3fd3333333333333", "3fefffffffffffff", "0010000000000000", "3fb999999999999a", "3feccccccccccccd"],
    "one": ["3ff0000000000000"],
    "one_plus": ["3ff0000000000001"],
    "big": ["3ff8000000000000", "4000000000000000", "7fe1ccf385ebc8a0", "7fefffffffffffff", "3ff0000000000002"],
    "pos_inf": ["7ff0000000000000"],
    "nan": ["7ff8000000000000", "fff8000000000000", "7ff0000000000001"],
}


def plan_c13(K, ctx):
    maxlen = 3 if ctx.tier == "quick" else 5
    reps = 3 if ctx.tier == "quick" else 4
    cfg = "SPECIFICATION Spec\n" + consts(MAXLEN=maxlen) + "INVARIANT Laws\nINVARIANT Emit\nCHECK_DEADLOCK FALSE\n"
    rnd = random.Random(ctx.seed)

    def expand(cmds, fmt):
        # every class tuple is instantiated with `reps` choices of concrete floats (the first one canonical, the others seeded)
        lines = [x for x in open(cmds, encoding="utf-8").read().split("\n") if x]
        with open(cmds, "w", encoding="utf-8") as g:
            for line in lines:
                c = json.loads(line)
                seen = set()
                for r in range(reps):
                    bits = [F64_CLASSES[k][0] if r == 0 else rnd.choice(F64_CLASSES[k]) for k in c["cls"]]
                    if tuple(bits) in seen:
                        continue
                    seen.add(tuple(bits))
                    g.write(json.dumps({"op": "numbers", "cls": c["cls"], "f": [{"bits": b} for b in bits]}) + "\n")

    def nontrivial(c):
        return len(c["cls"]) >= 1 and len(set(c["cls"])) >= 1

    K.pipeline(ctx, "ascii", "c13", "MC_C13", cfg, "J_C13", nontrivial, extra_cmds=expand, shards=6 if ctx.tier == "thorough" else 1)
    ctx.exhaustive = False
    return {
        "level": "exploration",
        "note": f"all tuples of float classes of arity 0..{maxlen} (11 classes: -inf, negative, -0, +0, subnormal, (0,1), 1, 1+ulp, >1, +inf, NaN) enumerated "
                f"by TLC with the constructor laws checked on the model; each tuple instantiated with up to {reps} concrete bit patterns per class "
                "and run through try_from_floats / new_* / accessors / is_valid / try_validate / validate / root on the real code. "
                "Partition-based: a defect that affects a single float inside a class is invisible.",
        "rule": "one case = one tuple of concrete f64 bit patterns; non-trivial = arity >= 1; exhaustive over class tuples, sampled inside classes",
        "assumptions": TRUSTED + ["the class of each concrete bit pattern in bin/plans.py F64_CLASSES is right"],
    }


def exotic_stage(K, ctx, tag, want_op, judge):
    """atom names the TLA+ side cannot spell (beyond the BMP, combining marks, rare scripts), generated by `nv drive names`"""
    allc = os.path.join(ctx.rundir, f"{tag}_all.cmds.ndjson")
    p = K.sh([K.NV, "drive", "names", str(ctx.seed), "0", allc], 600)
    if p.returncode != 0:
        raise K.ToolError("nv drive names failed: " + (p.stdout or ""))

    def one(fmt):
        def run():
            cmds = os.path.join(ctx.rundir, f"{tag}_{fmt}.cmds.ndjson")
            obs = os.path.join(ctx.rundir, f"{tag}_{fmt}.obs.ndjson")
            with open(cmds, "w", encoding="utf-8") as g:
                for line in open(allc, encoding="utf-8"):
                    c = json.loads(line)
                    if c["op"] == want_op and c["fmt"] == fmt:
                        g.write(line)
            K.account(ctx, cmds, lambda c: True)
            K.run_exec(ctx, cmds, obs)
            K.run_judge(ctx, judge, fmt, obs, f"{tag}_{fmt}_judge", shards=2)
        return run
    K.parallel([one(f) for f in K.FORMATS])


def names_in(x):
    if isinstance(x, dict):
        if "n" in x and x.get("k") != "Interval" and x.get("k") != "Fixed":
            yield x["n"]
        for v in x.values():
            yield from names_in(v)
    elif isinstance(x, list):
        for v in x:
            yield from names_in(v)


def spellable(K, ctx, v):
    """can the TLA+ side classify every character of every name (is it in the dumped working alphabet)?"""
    if not hasattr(ctx, "_alphabet"):
        ctx._alphabet = set(json.load(open(os.path.join(ctx.rundir, "vocab.json"), encoding="utf-8"))["alphabet"])
    if len(json.dumps(v)) > 8000:
        return False          # the handful of very large values: the judge compares results, the (quadratic) model run is not asked for
    return all(ch in ctx._alphabet for n in names_in(v) for ch in n)


def random_stage(K, ctx, tag, build, judge, count=None, fmts=None, nontrivial=None, shards=2, env_extra=None, split=True, witnesses=()):
    """seeded random well-formed values from `nv drive values` (rich names, random floats / stamps / intervals, depth <= 6):
    a different part of the value space for every VERIF_SEED.  `build(rec)` turns one generated record into commands.
    The judges decide the property on the real observations; model predictions are not asked for here (`exotic`)."""
    count = count or (3000 if ctx.tier == "quick" else 150000)
    allv = os.path.join(ctx.rundir, f"{tag}_values.ndjson")
    p = K.sh([K.NV, "drive", "values", str(ctx.seed), str(count), allv], 900)
    if p.returncode != 0:
        raise K.ToolError("nv drive values failed: " + (p.stdout or ""))
    fmts = fmts or K.FORMATS
    ctx.notes.append(f"seeded random stage {tag}: {count} values from `nv drive values {ctx.seed}` (DESIGN 13.5), judged by {judge}")

    def one(fmt):
        def run():
            cmds = os.path.join(ctx.rundir, f"{tag}_{fmt}.cmds.ndjson")
            obs = os.path.join(ctx.rundir, f"{tag}_{fmt}.obs.ndjson")
            with open(cmds, "w", encoding="utf-8") as g:
                for c in witnesses:
                    g.write(json.dumps(c, ensure_ascii=False) + "\n")
                for line in open(allv, encoding="utf-8"):
                    r = json.loads(line)
                    if split and r["fmt"] != fmt:
                        continue
                    for c in build(r, fmt):
                        g.write(json.dumps(c, ensure_ascii=False) + "\n")
            K.account(ctx, cmds, nontrivial or (lambda c: True))
            K.run_exec(ctx, cmds, obs)
            K.run_judge(ctx, judge, fmt, obs, f"{tag}_{fmt}_judge", shards=shards, env_extra=env_extra)
        return run
    K.parallel([one(f) for f in fmts])


SYMMETRIC = ("Similarity", "Equivalence", "EquivalenceConcurrent")


def term_of_value(v):
    return v["v"] if v["kind"] == "term" else v["v"]["t"] if v["kind"] == "sentence" else v["v"]["s"]["t"]


def variant(t, rnd, miss):
    """another recipe for the same term (sets shuffled, elements repeated, symmetric operands swapped) or, with `miss`, a near miss
    (one leaf renamed, one element dropped, an index moved, asymmetric operands swapped); the judge decides which it is"""
    t = json.loads(json.dumps(t))
    hit = [False]

    def wrap(x):
        # structural near misses: the term inside a double negation, or as the only component of a compound
        k = rnd.randrange(5)
        if k == 0:
            return {"k": "Negation", "a": {"k": "Negation", "a": x}}
        if k == 1:
            return {"k": rnd.choice(["SetExtension", "SetIntension", "Conjunction", "Disjunction", "IntersectionExtension"]), "s": [x]}
        if k == 2:
            return {"k": rnd.choice(["Product", "ConjunctionSequential"]), "q": [x]}
        if k == 3:
            return {"k": "Negation", "a": x}
        return {"k": "ImageExtension", "i": 1, "q": [x]}

    def walk(x):
        if miss and not hit[0] and rnd.random() < 0.12:
            hit[0] = True
            return wrap(json.loads(json.dumps(x)))
        if "s" in x:
            x["s"] = [walk(y) for y in x["s"]]
            rnd.shuffle(x["s"])
            if rnd.random() < 0.3:
                x["s"].append(json.loads(json.dumps(rnd.choice(x["s"]))))
            if miss and not hit[0] and len(x["s"]) > 1 and rnd.random() < 0.3:
                x["s"].pop()
                hit[0] = True
        elif "q" in x:
            x["q"] = [walk(y) for y in x["q"]]
            if miss and not hit[0] and len(x["q"]) > 1 and rnd.random() < 0.3:
                if "i" in x and rnd.random() < 0.5:
                    x["i"] = (x["i"] + 1) % (len(x["q"]) + 1)
                else:
                    x["q"].reverse()
                hit[0] = True
        elif "b" in x:
            x["a"], x["b"] = walk(x["a"]), walk(x["b"])
            if x["k"] in SYMMETRIC and rnd.random() < 0.5:
                x["a"], x["b"] = x["b"], x["a"]
            elif miss and not hit[0] and rnd.random() < 0.3:
                x["a"], x["b"] = x["b"], x["a"]
                hit[0] = True
        elif "a" in x:
            x["a"] = walk(x["a"])
        elif miss and not hit[0] and rnd.random() < 0.4:
            if x["k"] == "Interval":
                x["n"] = str((int(x["n"]) + 1) % 2 ** 64)
            elif "n" in x:
                x["n"] = x["n"] + "0"
            hit[0] = True
        return x
    return walk(t)


def swap_symmetric(cmds, fmt):
    """the model's values hold the operands of a symmetric statement as a set; the real value stores them in the order it was built:
    every adversarial-name command whose term is a symmetric statement is also issued with the operands the other way round"""
    extra = []
    for line in open(cmds, encoding="utf-8"):
        c = json.loads(line)
        v = c.get("v", {})
        if "adversarial" in c and v.get("kind") == "term" and v["v"].get("k") in SYMMETRIC and "a" in v["v"]:
            d = json.loads(line)
            d["v"]["v"]["a"], d["v"]["v"]["b"] = v["v"]["b"], v["v"]["a"]
            extra.append(json.dumps(d, ensure_ascii=False))
    with open(cmds, "a", encoding="utf-8") as g:
        for x in extra:
            g.write(x + "\n")


# ------------------------------------------------------------------------------------------------ C01
def nontrivial_value(c):
    v = c.get("v", {})
    if v.get("kind") != "term":
        return True
    return v["v"].get("k") not in ("Word", "Placeholder", "VariableIndependent", "VariableDependent", "VariableQuery", "Interval", "Operator")


def plan_c01(K, ctx):
    cfg = ("SPECIFICATION Spec\n" + consts(TIER=f'"{ctx.tier}"', SEEDS=16, SEED=ctx.seed) +
           "INVARIANT RoundTrip\nINVARIANT Emit\nCHECK_DEADLOCK FALSE\n")
    ncfg = ("SPECIFICATION Spec\n" + consts(TIER=f'"{ctx.tier}"', SEEDS=16, SEED=ctx.seed) + "INVARIANT Emit\nCHECK_DEADLOCK FALSE\n")
    K.parallel([(lambda f=f: K.pipeline(ctx, f, "c01", "MC_C01", cfg, "J_C01", nontrivial_value, workers=5,
                                        shards=5 if ctx.tier == "thorough" else 2)) for f in K.FORMATS])
    # adversarial names derived from the vocabulary (known finding F7 lives here)
    K.parallel([(lambda f=f: K.pipeline(ctx, f, "c01names", "MC_Names", ncfg, "J_C01", nontrivial_value, workers=5, extra_cmds=swap_symmetric,
                                        shards=6 if ctx.tier == "thorough" else 3)) for f in K.FORMATS])
    # M7: deeply nested and long values from the term-builder machine, TLC simulation mode
    dcfg = ("SPECIFICATION Spec\n" + consts(MAXD=64, LONGN=60) + "INVARIANT Emit\nINVARIANT ModelRoundTrip\nCHECK_DEADLOCK FALSE\n")
    K.parallel([(lambda f=f: K.pipeline(ctx, f, "c01deep", "MC_Deep", dcfg, "J_C01", nontrivial_value, workers=4,
                                        simulate=(3 if ctx.tier == "quick" else 30, 66), shards=4)) for f in K.FORMATS])
    exotic_stage(K, ctx, "c01exotic", "rt_enum", "J_C01")
    random_stage(K, ctx, "c01rand", lambda r, f: [dict({"op": "rt_enum", "fmt": f, "v": r["v"], "rand": True}, **({} if spellable(K, ctx, r["v"]) else {"exotic": True}))], "J_C01", nontrivial=nontrivial_value,
                 shards=2 if ctx.tier == "quick" else 6)
    ctx.exhaustive = False
    return {
        "note": "EnumFormat.tla + EnumParser.tla (M1) on the dumped vocabulary: model round trip checked by TLC for every value of U1 (all 30 "
                "constructors over a 4-atom pool, every image index), the atoms, images with late placeholders, a seeded sample (quick) or all "
                "(thorough) of the depth-2 universe U2r and the sentence/task envelopes (4 punctuations x 9 stamps incl. isize extremes x truths x "
                "budgets x 9 junction terms); adversarial names derived from the vocabulary (MC_Names); nesting depth 64 and 60-component compounds from "
                "the term-builder machine MC_Deep in TLC simulation mode; each value formatted and re-parsed by the real code in all three formats, judged by J_C01.",
        "rule": "one case = (value, format); non-trivial = a compound/statement term, or any sentence/task; distinct = distinct command JSON",
        "assumptions": TRUSTED + ["names are drawn from a pool that contains no keyword of the format under test (adversarial names: separate stage)"],
    }


# ------------------------------------------------------------------------------------------------ C10
def randws_stage(K, ctx, tag, what, count):
    """seeded random values; the token sequence, the spacings and (what = "sugar") the surface sugar come from the model: MC_RandWS
    reads the values from a file, checks the model parser on every text it builds and emits the text for both real pipelines"""
    allv = os.path.join(ctx.rundir, f"{tag}_values.ndjson")
    p = K.sh([K.NV, "drive", "values", str(ctx.seed), str(count), allv], 900)
    if p.returncode != 0:
        raise K.ToolError("nv drive values failed: " + (p.stdout or ""))
    ctx.notes.append(f"seeded random stage {tag}: {count} values from `nv drive values {ctx.seed}`, texts built by MC_RandWS ({what}), judged by J_Pipe")
    rcfg = "SPECIFICATION Spec\n" + consts(SEED=ctx.seed, WHAT=f'"{what}"') + "INVARIANT SpacingIrrelevant\nINVARIANT Emit\nCHECK_DEADLOCK FALSE\n"

    def rand(fmt):
        def run():
            vals = os.path.join(ctx.rundir, f"{tag}_{fmt}.values.ndjson")
            with open(vals, "w", encoding="utf-8") as g:
                for line in open(allv, encoding="utf-8"):
                    r = json.loads(line)
                    # the model parser is run on nine spacings of every value: long values (wide nodes) are left to the other stages
                    if r["fmt"] == fmt and len(line) <= 1500 and spellable(K, ctx, r["v"]):
                        g.write(line)
            K.pipeline(ctx, fmt, tag, "MC_RandWS", rcfg, "J_Pipe", lambda c: True, workers=5, shards=4 if ctx.tier == "thorough" else 2,
                       env_extra={"NV_VALUES": vals})
        return run
    K.parallel([rand(f) for f in K.FORMATS])


# ------------------------------------------------------------------------------------------------ C10
def plan_c10(K, ctx):
    cfg = ("SPECIFICATION Spec\n" + consts(TIER=f'"{ctx.tier}"', SEEDS=16, SEED=ctx.seed) +
           "INVARIANT Meaning\nINVARIANT Emit\nCHECK_DEADLOCK FALSE\n")
    K.parallel([(lambda f=f: K.pipeline(ctx, f, "c10", "MC_C10", cfg, "J_Pipe", lambda c: True, workers=5,
                                        shards=4 if ctx.tier == "thorough" else 2)) for f in K.FORMATS])
    # seeded random values written back with sugar (Resugar) and every derived copula over the operands of random statements
    randws_stage(K, ctx, "c10rand", "sugar", 400 if ctx.tier == "quick" else 4000)
    return {
        "note": "Sugar.tla states the meaning of the surface sugar independently (Desugar): the four derived copulas over an operand pool (atoms of "
                "every kind, one representative compound per shape, a sample / all of U1), image component lists of length 1..3 with one or two "
                "placeholders at every position, raw interval and placeholder texts, duplicated set components, and all of these nested under every "
                "parent kind and under sentences / tasks. TLC checks ModelParse(text) = Desugar(tree) for three spacings; the real enum parser and "
                "the real lexical parser + fold must both return Desugar(tree) for each text.",
        "rule": "one case = (surface tree, spacing, format); every case contains sugar, so all are non-trivial; distinct = distinct command JSON",
        "assumptions": TRUSTED,
    }


# ------------------------------------------------------------------------------------------------ C09
def plan_c09(K, ctx):
    cfg = ("SPECIFICATION Spec\n" + consts(TIER=f'"{ctx.tier}"', SEEDS=16, SEED=ctx.seed) +
           "INVARIANT SpacingIrrelevant\nINVARIANT Emit\nCHECK_DEADLOCK FALSE\n")
    K.parallel([(lambda f=f: K.pipeline(ctx, f, "c09", "MC_C09", cfg, "J_Pipe", lambda c: sum(1 for t in c["s"] if t == " ") != 0 or True,
                                        workers=5, shards=5 if ctx.tier == "thorough" else 3)) for f in K.FORMATS])
    randws_stage(K, ctx, "c09rand", "ws", 900 if ctx.tier == "quick" else 9000)
    return {
        "note": "EnumFormat.tla gives the token sequence of a value; a state of MC_C09 is (value, spacing). Explored per value: 0/1/2 spaces "
                "everywhere, every single boundary opened alone and closed alone (exhaustive over the boundaries of each explored value), a wide "
                "gap, two pseudo-random spacings, and tab / newline / U+3000 for the lexical pipeline; values: all atoms, one term per constructor, "
                "a sample (quick) or all (thorough) of U1, sentences and tasks over all stamps / truth arities / budget arities. TLC checks the "
                "model parser on each spaced text; both real pipelines (and the inline macros for ASCII) must return the value.",
        "rule": "one case = (value, spacing, format); distinct = distinct command JSON; every case has at least two tokens",
        "assumptions": TRUSTED + ["atom = one token, number = one token (DESIGN §9c)"],
    }


# ------------------------------------------------------------------------------------------------ C08
def plan_c08(K, ctx):
    maxlen = 3 if ctx.tier == "quick" else 4
    cfg = ("SPECIFICATION Spec\n" + consts(MAXLEN=maxlen, RESET_CLEARS="TRUE") +
           "INVARIANT HistoryIndependent\nINVARIANT Emit\nCHECK_DEADLOCK FALSE\n")

    def nontrivial(c):
        return len(c["inputs"]) >= 2 and len(set(map(json.dumps, c["inputs"]))) >= 2

    K.parallel([(lambda f=f: K.pipeline(ctx, f, "c08", "MC_C08", cfg, "J_C08", nontrivial, workers=5,
                                        shards=5 if ctx.tier == "thorough" else 2)) for f in K.FORMATS])
    # M1 event traces (hooks): the same input sequences through the instrumented ParseState, validated event by event
    def trace(fmt):
        def run():
            src = os.path.join(ctx.rundir, f"c08_{fmt}.cmds.ndjson")
            cmds = os.path.join(ctx.rundir, f"c08trace_{fmt}.cmds.ndjson")
            obs = os.path.join(ctx.rundir, f"c08trace_{fmt}.obs.ndjson")
            with open(cmds, "w", encoding="utf-8") as g:
                for line in open(src, encoding="utf-8"):
                    c = json.loads(line)
                    c["op"] = "trace_multi"
                    g.write(json.dumps(c, ensure_ascii=False) + "\n")
            K.account(ctx, cmds, nontrivial)
            K.run_exec(ctx, cmds, obs)
            K.run_judge(ctx, "J_Trace", fmt, obs, f"c08trace_{fmt}_judge", shards=4 if ctx.tier == "thorough" else 2)
        return run
    K.parallel([trace(f) for f in K.FORMATS])
    # seeded random histories: 2..8 inputs drawn from the garbage driver (token soups, deep nesting, real formatter output with random edits),
    # restricted to the working alphabet and 160 characters so that the model parses every input too; result level and event level
    tmp = os.path.join(ctx.rundir, "c08rand_pool.ndjson")
    p = K.sh([K.NV, "drive", "garbage", str(ctx.seed), str(9000 if ctx.tier == "quick" else 90000), tmp], 600)
    if p.returncode != 0:
        raise K.ToolError("nv drive garbage failed: " + (p.stdout or ""))
    alphabet = set(json.load(open(os.path.join(ctx.rundir, "vocab.json"), encoding="utf-8"))["alphabet"])
    pool = {f: [] for f in K.FORMATS}
    for line in open(tmp, encoding="utf-8"):
        c = json.loads(line)
        if len(c["s"]) <= 160 and all(ch in alphabet for ch in c["s"]):
            pool[c["fmt"]].append(c["s"])
    rnd = random.Random(ctx.seed)

    def hist(fmt, op, tag, judge):
        def run():
            cmds = os.path.join(ctx.rundir, f"{tag}_{fmt}.cmds.ndjson")
            obs = os.path.join(ctx.rundir, f"{tag}_{fmt}.obs.ndjson")
            r2 = random.Random(f"{ctx.seed}-{fmt}")
            with open(cmds, "w", encoding="utf-8") as g:
                for _ in range(len(pool[fmt]) // 3):
                    g.write(json.dumps({"op": op, "fmt": fmt, "inputs": [r2.choice(pool[fmt]) for _ in range(r2.randint(2, 8) if r2.random() < 0.93 else r2.choice([16, 17, 32, 33, 64, 65]))], "rand": True}, ensure_ascii=False) + "\n")
                # long batches of long (deeply nested, mostly failing) inputs followed by short well-formed ones: whatever a failed
                # parse leaves behind accumulates over the batch
                longs = [x for x in pool[fmt] if len(x) > 110] or pool[fmt]
                shorts = [x for x in pool[fmt] if len(x) < 25] or pool[fmt]
                for _ in range(12 if ctx.tier == "quick" else 120):
                    k = r2.choice(longs)
                    g.write(json.dumps({"op": op, "fmt": fmt, "inputs": [k if r2.random() < 0.7 else r2.choice(longs) for _ in range(r2.choice([40, 64, 80]))] + [r2.choice(shorts) for _ in range(4)],
                                        "rand": True}, ensure_ascii=False) + "\n")
            K.account(ctx, cmds, nontrivial)
            K.run_exec(ctx, cmds, obs)
            K.run_judge(ctx, judge, fmt, obs, f"{tag}_{fmt}_judge", shards=4 if ctx.tier == "thorough" else 2)
        return run
    K.parallel([hist(f, "multi", "c08rand", "J_C08") for f in K.FORMATS])
    K.parallel([hist(f, "trace_multi", "c08randtrace", "J_Trace") for f in K.FORMATS])
    # negative control (vacuity guard): with the pinned tree's reset_to the model must violate the invariant
    neg = ("SPECIFICATION Spec\n" + consts(MAXLEN=2, RESET_CLEARS="FALSE") + "INVARIANT HistoryIndependent\nCHECK_DEADLOCK FALSE\n")
    out, st = K.tlc("MC_C08", neg, ctx.rundir, "c08_negative_control", ctx.env("ascii"), 2, K.JAVA_OPTS_MC, 600)
    if not any("HistoryIndependent is violated" in e for e in st["errors"]):
        raise K.ToolError("negative control failed: the model with a non-clearing reset_to does not violate HistoryIndependent")
    ctx.notes.append("negative control passed")
    return {
        "note": f"M1 with the input queue (MC_C08.tla): actions ResetTo and Consume over a pool of 16 fragments per format (complete task, "
                f"sentence, bare term, budget+term, term+stamp, term+truth, budget only, truth only, out-of-range truth, unterminated compound, "
                f"empty, stamp only, punctuation only, $x, ?z?, empty-budget task); TLC explores ALL input sequences of length {maxlen} "
                "(invariant: every result equals the fresh parse) and, as a negative control, finds the violation when ResetTo keeps the slots. "
                "Every sequence is given to the real parse_multi and compared position by position with fresh parse / second parse / "
                "parse_chars, and the lexical parser is run along the same history.",
        "rule": "one case = (input sequence, format); non-trivial = at least two different inputs; exhaustive over the pool for the stated length",
        "assumptions": TRUSTED,
    }


# ------------------------------------------------------------------------------------------------ C04 / C05 / C12
def garbage_plan(K, ctx, prop):
    quick = ctx.tier == "quick"
    cfg = ("SPECIFICATION Spec\n" + consts(MAXTOK=3, MAXCORE=3 if quick else 4, MAXTINY=5 if quick else 6, MAXEDITS=1 if quick else 2, TIER=f'"{ctx.tier}"', SEED=ctx.seed) +
           "INVARIANT WindowsOK\nINVARIANT StepsAdvance\nINVARIANT AcceptedIsWF\nINVARIANT SideDoorsWF\nINVARIANT LexWindowOK\nINVARIANT LexLengthOK\nINVARIANT Emit\nCHECK_DEADLOCK FALSE\n")
    cfg_fold = ("SPECIFICATION Spec\n" + consts(TIER=f'"{ctx.tier}"', SEEDS=16, SEED=ctx.seed) +
                "INVARIANT AcceptedIsWF\nINVARIANT Emit\nCHECK_DEADLOCK FALSE\n")
    cfg_sugar = ("SPECIFICATION Spec\n" + consts(TIER=f'"{ctx.tier}"', SEEDS=16, SEED=ctx.seed) + "INVARIANT Emit\nCHECK_DEADLOCK FALSE\n")
    ndrive = 6000 if quick else 150000

    def nontrivial(c):
        if c["op"] == "fold_any":
            return c["v"]["kind"] != "term" or c["v"]["v"]["k"] != "Atom"
        s = c["s"]
        return len(s) >= 2

    ctx.judge_env = {"NV_PROP": prop}

    def one(fmt):
        def add_drive(cmds, f):
            tmp = cmds + ".drive"
            p = K.sh([K.NV, "drive", "garbage", str(ctx.seed), str(ndrive), tmp], 600)
            if p.returncode != 0:
                raise K.ToolError("nv drive failed: " + (p.stdout or ""))
            with open(cmds, "a", encoding="utf-8") as g:
                for line in open(tmp, encoding="utf-8"):
                    if json.loads(line)["fmt"] == f:
                        g.write(line)
            os.remove(tmp)
        def run():
            env = {"NV_PROP": prop}
            cmds = os.path.join(ctx.rundir, f"garbage_{fmt}.cmds.ndjson")
            obs = os.path.join(ctx.rundir, f"garbage_{fmt}.obs.ndjson")
            open(cmds, "w").close()
            K.run_mc(ctx, "MC_Garbage", cfg, fmt, f"garbage_{fmt}_mc", cmds, workers=5, timeout=7200)
            if prop in ("C05", "C12"):
                K.run_mc(ctx, "MC_FoldAny", cfg_fold, fmt, f"foldany_{fmt}_mc", cmds, workers=4)
            # accepted inputs that only hand-written text contains: the sugar texts of C10 (several placeholders, raw intervals, derived
            # copulas, duplicated set components) - whatever the parsers return for them must be well-formed too
            K.run_mc(ctx, "MC_C10", cfg_sugar, fmt, f"sugar_{fmt}_mc", cmds, workers=4,
                     transform=lambda c: {"op": "parse_any", "fmt": c["fmt"], "s": c["s"]})
            lines = sorted(set(x for x in open(cmds, encoding="utf-8").read().split("\n") if x))
            open(cmds, "w", encoding="utf-8").write("".join(l + "\n" for l in lines))
            add_drive(cmds, fmt)
            K.account(ctx, cmds, nontrivial)
            K.run_exec(ctx, cmds, obs)
            K.run_judge(ctx, "J_Garbage", fmt, obs, f"garbage_{fmt}_judge", shards=6 if not quick else 3, env_extra=env)
            if prop == "C04":
                # M1 event traces (hooks) on a quarter of the strings: cursor, slots and every error cursor against the model
                tcmds = os.path.join(ctx.rundir, f"garbagetrace_{fmt}.cmds.ndjson")
                tobs = os.path.join(ctx.rundir, f"garbagetrace_{fmt}.obs.ndjson")
                with open(tcmds, "w", encoding="utf-8") as g:
                    for i, line in enumerate(open(cmds, encoding="utf-8")):
                        c = json.loads(line)
                        if i % 4 == ctx.seed % 4 and c["op"] == "parse_any":
                            g.write(json.dumps({"op": "trace_multi", "fmt": fmt, "inputs": [c["s"]]}, ensure_ascii=False) + "\n")
                K.account(ctx, tcmds, lambda c: True)
                K.run_exec(ctx, tcmds, tobs)
                K.run_judge(ctx, "J_Trace", fmt, tobs, f"garbagetrace_{fmt}_judge", shards=3 if quick else 6)
            if prop == "C05":
                # M8 event traces (hooks of the lexical parser): the window of parse_items and every call of the recursive segmenters
                # (environment, ok, right border) against the specification's operators, on a sixth of the strings
                tcmds = os.path.join(ctx.rundir, f"lextrace_{fmt}.cmds.ndjson")
                tobs = os.path.join(ctx.rundir, f"lextrace_{fmt}.obs.ndjson")
                with open(tcmds, "w", encoding="utf-8") as g:
                    for i, line in enumerate(open(cmds, encoding="utf-8")):
                        c = json.loads(line)
                        if i % 6 == ctx.seed % 6 and c["op"] == "parse_any":
                            g.write(json.dumps({"op": "trace_lex", "fmt": fmt, "s": c["s"]}, ensure_ascii=False) + "\n")
                K.account(ctx, tcmds, lambda c: True)
                K.run_exec(ctx, tcmds, tobs)
                K.run_judge(ctx, "J_LexTrace", fmt, tobs, f"lextrace_{fmt}_judge", shards=3 if quick else 6)
        return run
    K.parallel([one(f) for f in K.FORMATS])
    ctx.exhaustive = False
    what = {
        "C04": "every enum entry point (Narsese, parse_chars, parse_multi, Truth, Budget, Stamp, Punctuation) returned Ok or a displayable Err",
        "C05": "lexical parse, parse_term and fold returned Ok or Err; folding arbitrary lexical values (MC_FoldAny) returned Ok or Err",
        "C12": "every value accepted by the enum parser or by fold is well-formed (Values.tla WFParsed / WFFolded) and formattable in all formats and Typst",
    }[prop]
    return {
        "note": "MC_Garbage.tla: all token strings up to the bound over a 44-token alphabet per format, and well-formed texts under token / "
                "character-level edits (delete, duplicate, insert, swap, truncate inside keywords); the model of M1 is run on each with the "
                "invariants WindowsOK, StepsAdvance, AcceptedIsWF, SideDoorsWF. Plus seeded long / deep / Unicode inputs from `nv drive` (<= 512 "
                "chars, nesting <= 64, 20 s watchdog, 256 MB stack). Judged: " + what + ". Model/code verdict differences are DRIFT only.",
        "rule": "one case = (string or lexical value, format); non-trivial = at least two characters / not a bare atom; token strings exhaustive "
                "up to the bound, the rest sampled",
        "assumptions": TRUSTED + ["bounded time is decided by a 20 s watchdog per input, not by TLC"],
    }


# ------------------------------------------------------------------------------------------------ C06 / C07
def eqhash_plan(K, ctx, prop):
    quick = ctx.tier == "quick"
    reps = 4
    cfg = ("SPECIFICATION Spec\n" + consts(DEPTH=2, TIER=f'"{ctx.tier}"', SEEDS=16, SEED=ctx.seed, ORDERED_HASH="FALSE") +
           "INVARIANT EqIsSemantic\nINVARIANT EqSymmetric\nINVARIANT EqReflexive\nINVARIANT EqualHashEqual\nINVARIANT Emit\nCHECK_DEADLOCK FALSE\n")
    rnd = random.Random(ctx.seed)

    def extra(cmds, fmt):
        lines = [x for x in open(cmds, encoding="utf-8").read().split("\n") if x]
        recs = [json.loads(x) for x in lines]
        with open(cmds, "w", encoding="utf-8") as g:
            for c in recs:
                c["reps"] = reps
                g.write(json.dumps(c, ensure_ascii=False) + "\n")
            # triples for transitivity: (variant, variant, variant-or-near-miss) of the same value
            for _ in range(min(len(recs), 1500 if quick else 20000)):
                c1, c2 = rnd.choice(recs), rnd.choice(recs)
                g.write(json.dumps({"op": "eq3", "a": c1["a"], "b": c1["b"], "c": rnd.choice([c1["a"], c2["a"], c2["b"]])}, ensure_ascii=False) + "\n")
        # two parses of the same string, from the values the round-trip stage of C01 formats
        for f in K.FORMATS:
            pass

    def nontrivial(c):
        return c["op"] != "eqhash" or json.dumps(c["a"], sort_keys=True) != json.dumps(c["b"], sort_keys=True)

    ctx.judge_env = {"NV_PROP": prop}
    cmds = os.path.join(ctx.rundir, "eq_ascii.cmds.ndjson")
    obs = os.path.join(ctx.rundir, "eq_ascii.obs.ndjson")
    open(cmds, "w").close()
    K.run_mc(ctx, "MC_C06", cfg, "ascii", "eq_mc", cmds, workers=8)
    lines = sorted(set(x for x in open(cmds, encoding="utf-8").read().split("\n") if x))
    open(cmds, "w", encoding="utf-8").write("".join(l + "\n" for l in lines))
    extra(cmds, "ascii")
    # parse-twice commands: the texts of C01's universe in all formats, built by the model formatter
    pt_cfg = ("SPECIFICATION Spec\n" + consts(TIER='"quick"', SEEDS=16, SEED=ctx.seed) + "INVARIANT EmitText\nCHECK_DEADLOCK FALSE\n")
    for f in K.FORMATS:
        K.run_mc(ctx, "MC_ParseTwice", pt_cfg, f, f"eq_pt_{f}_mc", cmds, workers=4)
    # seeded random values (depth <= 6, rich names, huge intervals): a recipe against a rewritten recipe of the same term and against a near miss
    allv = os.path.join(ctx.rundir, "eq_values.ndjson")
    p = K.sh([K.NV, "drive", "values", str(ctx.seed), str(1500 if quick else 30000), allv], 900)
    if p.returncode != 0:
        raise K.ToolError("nv drive values failed: " + (p.stdout or ""))
    with open(cmds, "a", encoding="utf-8") as g:
        for line in open(allv, encoding="utf-8"):
            t = term_of_value(json.loads(line)["v"])
            same, near = variant(t, rnd, False), variant(t, rnd, True)
            g.write(json.dumps({"op": "eqhash", "a": t, "b": same, "reps": reps, "rand": True}, ensure_ascii=False) + "\n")
            g.write(json.dumps({"op": "eqhash", "a": same, "b": near, "reps": reps, "rand": True}, ensure_ascii=False) + "\n")
            g.write(json.dumps({"op": "eq3", "a": t, "b": same, "c": rnd.choice([near, variant(t, rnd, False)]), "rand": True}, ensure_ascii=False) + "\n")
    K.account(ctx, cmds, nontrivial)
    K.run_exec(ctx, cmds, obs)
    K.run_judge(ctx, "J_C06", "ascii", obs, "eq_judge", shards=6 if not quick else 3, env_extra={"NV_PROP": prop})
    # negative control: the pinned tree's order-dependent Hash must violate the invariants in the model
    neg = ("SPECIFICATION Spec\n" + consts(DEPTH=2, TIER='"quick"', SEEDS=1, SEED=1, ORDERED_HASH="TRUE") +
           "INVARIANT EqIsSemantic\nINVARIANT EqualHashEqual\nCHECK_DEADLOCK FALSE\n")
    out, st = K.tlc("MC_C06", neg, ctx.rundir, "eq_negative_control", ctx.env("ascii"), 4, K.JAVA_OPTS_MC, 900)
    if not any("is violated" in e for e in st["errors"]):
        raise K.ToolError("negative control failed: the order-dependent Hash does not violate the M4 invariants in the model")
    ctx.exhaustive = False
    return {
        "note": "EqHash.tla (M4): every HashSet instance carries a hidden iteration order; TLC checks for ALL pairs of built terms of depth <= 2 "
                "over two words (all iteration orders of all set nodes) that the transcribed PartialEq is canonical equality, symmetric, reflexive, "
                "and that canonically equal terms feed equal hash input; with the pinned tree's order-dependent Hash (negative control) TLC finds "
                f"the counterexamples. Conformance: recipe pairs from a universe of nested unordered compounds and symmetric statements (4 insertion-"
                f"order / duplication variants of each value against each other and against near misses), each built {reps} times with fresh random "
                "states; ==, both directions, derived equality of sentence / Narsese, DefaultHasher and RandomState hashes, HashSet.contains, "
                "HashMap.get; triples for transitivity; two parses of the same text in all formats.",
        "rule": "one case = (recipe a, recipe b[, recipe c]) or (text parsed twice); non-trivial = the two recipes are written differently",
        "assumptions": TRUSTED + ["hash collisions of the 64-bit std hashers are ignored"],
    }


# ------------------------------------------------------------------------------------------------ C16
def plan_c16(K, ctx):
    quick = ctx.tier == "quick"
    cfg = ("SPECIFICATION Spec\n" + consts(TIER=f'"{ctx.tier}"', SEEDS=16, SEED=ctx.seed) +
           "INVARIANT TextNormalised\nINVARIANT Injective\nINVARIANT Emit\nCHECK_DEADLOCK FALSE\n")

    def reps(cmds, fmt):
        lines = [x for x in open(cmds, encoding="utf-8").read().split("\n") if x]
        with open(cmds, "w", encoding="utf-8") as g:
            for x in lines:
                c = json.loads(x)
                c["reps"] = 3 if quick else 4
                g.write(json.dumps(c, ensure_ascii=False) + "\n")

    # the history clause (M6) needs every rendering in one place: one judge over the whole file; the per-observation
    # clauses are judged on shards
    ctx.judge_env = {"NV_C16_MODE": "all"}
    cmds = os.path.join(ctx.rundir, "c16_ascii.cmds.ndjson")
    obs = os.path.join(ctx.rundir, "c16_ascii.obs.ndjson")
    open(cmds, "w").close()
    K.run_mc(ctx, "MC_C16", cfg, "ascii", "c16_ascii_mc", cmds, workers=8)
    lines = sorted(set(x for x in open(cmds, encoding="utf-8").read().split("\n") if x))
    open(cmds, "w", encoding="utf-8").write("".join(l + "\n" for l in lines))
    # seeded random values (rich names, random floats, huge stamps and intervals) join the same history
    allv = os.path.join(ctx.rundir, "c16_values.ndjson")
    p = K.sh([K.NV, "drive", "values", str(ctx.seed), str(2000 if quick else 25000), allv], 900)
    if p.returncode != 0:
        raise K.ToolError("nv drive values failed: " + (p.stdout or ""))
    with open(cmds, "a", encoding="utf-8") as g:
        for line in open(allv, encoding="utf-8"):
            r = json.loads(line)
            g.write(json.dumps(dict({"op": "typst", "v": r["v"], "rand": True}, **({} if spellable(K, ctx, r["v"]) else {"exotic": True})), ensure_ascii=False) + "\n")
    reps(cmds, "ascii")
    lines = [x for x in open(cmds, encoding="utf-8").read().split("\n") if x]
    random.Random(ctx.seed).shuffle(lines)           # spread the long random values over the judge shards
    open(cmds, "w", encoding="utf-8").write("".join(l + "\n" for l in lines))
    K.account(ctx, cmds, nontrivial_value)
    K.run_exec(ctx, cmds, obs)
    # two values can only share a text if they share its multiset of characters: the history judge is sharded by that (and an observation
    # whose renderings differ in it goes to every shard concerned), so every pair of equal texts still meets in one judge
    import zlib

    def text_keys(o):
        ts = [t["s"] for t in o["o"].get("texts", []) if t.get("r") == "ok"]
        return {zlib.crc32("".join(sorted(t)).encode("utf-8")) for t in ts} or {0}
    K.parallel([lambda: K.run_judge(ctx, "J_C16", "ascii", obs, "c16_global_judge", shards=2 if quick else 12, env_extra={"NV_C16_MODE": "global"},
                                    shard_keys=text_keys),
                lambda: K.run_judge(ctx, "J_C16", "ascii", obs, "c16_local_judge", shards=6, env_extra={"NV_C16_MODE": "local"})], max_workers=2)
    ctx.judged = sum(1 for _ in open(obs, encoding="utf-8"))          # the same observations went through both judges
    return {
        "note": "Typst.tla: layout by arity on the dumped markup constants. TLC checks that every model rendering is whitespace-normalised and "
                "that rendering is injective on the whole universe (cardinality of the image = cardinality of the universe): U1, atoms, late-"
                "placeholder images, a sample / all of U2r, and the sentence / task envelopes. Conformance (M6): every value is built and rendered "
                "several times by the real renderer; J_C16 checks no panic, character-wise normalisation, agreement of the copies up to component "
                "order, and over the whole history that no text stands for two different values. Model text vs real text is DRIFT only.",
        "rule": "one case = one value rendered `reps` times; non-trivial = compound/statement term or any sentence/task; injectivity is decided over all pairs of the run",
        "assumptions": TRUSTED,
    }


# ------------------------------------------------------------------------------------------------ C11
def plan_c11(K, ctx):
    cfg = ("SPECIFICATION Spec\n" + consts(TIER=f'"{ctx.tier}"', SEEDS=16, SEED=ctx.seed) +
           "INVARIANT Lexicon\nINVARIANT GrammarAccepts\nINVARIANT Emit\nCHECK_DEADLOCK FALSE\n")

    def nontrivial(c):
        v = c.get("v") or c.get("lv")
        return v["kind"] != "term" or v["v"]["k"] not in ("Word", "Atom")

    K.pipeline(ctx, "ascii", "c11", "MC_C11", cfg, "J_C11", nontrivial, workers=8, shards=6 if ctx.tier == "thorough" else 3)
    # seeded random values with ASCII-spelt names: the grammar runs on the real formatter's text (no model prediction involved)
    random_stage(K, ctx, "c11rand", lambda r, f: [{"op": "ascii_out", "v": r["v"], "rand": True}] if r["ascii_safe"] and (ctx.tier == "thorough" or not r.get("huge")) else [], "J_C11",
                 count=4000 if ctx.tier == "quick" else 100000, fmts=["ascii"], nontrivial=nontrivial, shards=2 if ctx.tier == "quick" else 6, split=False,
                 witnesses=[{"op": "ascii_out", "v": {"kind": "sentence", "v": {"t": {"k": "Word", "n": n}, "p": "Judgement", "st": {"k": "Eternal"}, "tr": []}}}
                            for n in ("a_-_b", "x---y", "a_--b", "a--_b")])   # known finding F10, always exercised
    # the lexicon clause is a statement about the code's tables: a violated Lexicon invariant is a violation of C11
    for a in list(ctx.model_alarms):
        if "Lexicon" in a:
            ctx.model_alarms.remove(a)
            ctx.violations.append(({"id": 0, "c": {"op": "lexicon", "note": "FORMAT_ASCII differs from the published lexicon"}, "o": {"alarm": a}},
                                   ["ascii-lexicon-differs-from-published"], "MC_C11", "ascii"))
    return {
        "note": "Peg.tla transcribes the README grammar rule by rule (ordered choice, greedy repetition, lookahead, implicit whitespace in non-"
                "atomic rules) and writes out the published lexicon. TLC checks that the dumped enum and lexical ASCII tables equal the published "
                "lexicon and that the grammar accepts the model formatter's text of every value with the right kind and tree; the judge runs "
                "the grammar on the REAL output of both ASCII formatters (enum values: U1, atoms, sample/all of U2r, envelopes; lexical values: "
                "derived copulas, uninterpreted arities, long truth / budget lists) and compares kind and tree with the library's lexical parser.",
        "rule": "one case = one enum or lexical value formatted in ASCII; non-trivial = not a bare word",
        "assumptions": TRUSTED + ["Unicode PUNCTUATION|SYMBOL and LETTER|NUMBER are written out for the characters that can occur (ASCII + the name pool)"],
    }


# ------------------------------------------------------------------------------------------------ C15
def plan_c15(K, ctx):
    depth = 3 if ctx.tier == "quick" else 4
    cfg = ("SPECIFICATION Spec\n" + consts(DEPTH=depth, SEEDS=1) +
           "INVARIANT CastRoundTrip\nINVARIANT TaskBackIffEmptyBudget\nINVARIANT UnwrapMatchesOnly\nINVARIANT CompatibleIsCast\nINVARIANT Emit\nCHECK_DEADLOCK FALSE\n")

    def nontrivial(c):
        return c["op"] == "pipe" or len(set(c["ops"])) > 1

    K.parallel([(lambda f=f: K.pipeline(ctx, f, "c15", "MC_C15", cfg, "J_C15", nontrivial, workers=5,
                                        shards=4 if ctx.tier == "thorough" else 2)) for f in K.FORMATS])
    # seeded random enum values (rich names, huge stamps, long budgets) under random operation histories of length 4..10, replayed through M3
    rnd = random.Random(ctx.seed)
    base = ["is", "try_into_term", "try_into_sentence", "try_into_task", "try_into_task_compatible", "cast_to_task", "try_cast_to_sentence",
            "value_try_cast_to_sentence", "get_term", "std_try_term", "std_try_sentence", "std_try_task"]

    def life(r, f):
        ops = [rnd.choice(base + ["reparse_" + f, "cast_to_task", "try_cast_to_sentence"]) for _ in range(rnd.randint(4, 10) if rnd.random() < 0.95 else rnd.choice([17, 33, 40]))]
        return [{"op": "lifecycle", "model": "enum", "fmt": f, "ops": ops, "v": r["v"], "rand": True}]
    random_stage(K, ctx, "c15rand", life, "J_C15", count=3000 if ctx.tier == "quick" else 90000, nontrivial=nontrivial, shards=2 if ctx.tier == "quick" else 5)
    return {
        "note": f"Lifecycle.tla (M3): all operation sequences of length {depth} over 9-13 operations (is_*, try_into_*, std TryFrom, "
                "try_into_task_compatible, cast_to_task, try_cast_to_sentence on task and on value, get_term, format-then-parse) from term / sentence "
                "/ task values (empty and non-empty budget) of BOTH data models; the equations of C15 are invariants of the behaviours; every "
                "behaviour is replayed on real values with result and projected value compared after every step. Classification: all 32 subsets "
                "of the five items x 9 junction terms x {dense, spaced} x 3 formats through both parsers; an accepted input must have the kind "
                "given by (budget, term, punctuation). The kind clause of format-then-parse is also checked by C01's judge on every round trip.",
        "rule": "one case = (start value, operation sequence, data model) or (item subset, junction term, spacing, format); non-trivial = more than one distinct operation",
        "assumptions": TRUSTED,
    }


# ------------------------------------------------------------------------------------------------ C03
def plan_c03(K, ctx):
    quick = ctx.tier == "quick"
    # (a) vocabulary clause on the dumped tables
    vcfg = "INIT Init\nNEXT Next\nINVARIANT SameVocabulary\nINVARIANT FirstMatchIsSafe\nCHECK_DEADLOCK FALSE\n"
    out, st = K.tlc("MC_Vocab", vcfg, ctx.rundir, "c03_vocab", ctx.env("ascii"), 1, K.JAVA_OPTS_MC, 600, extra=["-continue"])
    ctx.states += st["distinct"]
    ctx.transitions += st["generated"]
    for e in st["errors"]:
        if "SameVocabulary is violated" in e:
            ctx.violations.append(({"id": 0, "c": {"op": "vocabulary", "note": "enum and lexical tables of the same name differ"}, "o": {"alarm": e}},
                                   ["enum-and-lexical-vocabulary-differ"], "MC_Vocab", "all"))
        elif "FirstMatchIsSafe is violated" in e:
            ctx.model_alarms.append("MC_Vocab: " + e)
        elif "violated" not in e:
            raise K.ToolError("MC_Vocab failed: " + e)
    # (b) everything the enum formatter emits, through both pipelines; (c) the same texts with derived copulas and sugar
    # (the design-level invariants RoundTrip / Meaning of these generator modules are checked by C01 / C10; here they only generate)
    cfg1 = ("SPECIFICATION Spec\n" + consts(TIER=f'"{ctx.tier}"', SEEDS=16, SEED=ctx.seed) + "INVARIANT Emit\nCHECK_DEADLOCK FALSE\n")
    cfg2 = ("SPECIFICATION Spec\n" + consts(TIER=f'"{ctx.tier}"', SEEDS=16, SEED=ctx.seed) + "INVARIANT Emit\nCHECK_DEADLOCK FALSE\n")

    ncfg = ("SPECIFICATION Spec\n" + consts(TIER=f'"{ctx.tier}"', SEEDS=16, SEED=ctx.seed) + "INVARIANT Emit\nCHECK_DEADLOCK FALSE\n")
    dcfg = ("SPECIFICATION Spec\n" + consts(MAXD=64, LONGN=60) + "INVARIANT Emit\nCHECK_DEADLOCK FALSE\n")

    def to_pipe_v(c):
        c["op"] = "pipe_v"
        return c

    def one(fmt):
        def run():
            cmds = os.path.join(ctx.rundir, f"c03_{fmt}.cmds.ndjson")
            obs = os.path.join(ctx.rundir, f"c03_{fmt}.obs.ndjson")
            open(cmds, "w").close()
            K.run_mc(ctx, "MC_C01", cfg1, fmt, f"c03_{fmt}_values_mc", cmds, workers=5, transform=to_pipe_v)
            K.run_mc(ctx, "MC_C10", cfg2, fmt, f"c03_{fmt}_sugar_mc", cmds, workers=5)
            K.run_mc(ctx, "MC_Names", ncfg, fmt, f"c03_{fmt}_names_mc", cmds, workers=5, transform=to_pipe_v)
            K.run_mc(ctx, "MC_Deep", dcfg, fmt, f"c03_{fmt}_deep_mc", cmds, workers=4, transform=to_pipe_v, simulate=(3 if quick else 30, 66))
            lines = sorted(set(x for x in open(cmds, encoding="utf-8").read().split("\n") if x))
            open(cmds, "w", encoding="utf-8").write("".join(l + "\n" for l in lines))
            swap_symmetric(cmds, fmt)
            K.account(ctx, cmds, lambda c: c["op"] == "pipe" or nontrivial_value(c))
            K.run_exec(ctx, cmds, obs)
            K.run_judge(ctx, "J_Pipe", fmt, obs, f"c03_{fmt}_judge", shards=3 if quick else 6)
        return run
    K.parallel([one(f) for f in K.FORMATS])
    # (d) texts generated from arity-valid lexical values (C02's universe: every connecter arity, both set brackets, all 13 copulas, signed /
    # zero-padded fixed stamps, odd number spellings), written by the real lexical formatter, through both pipelines
    lcfg = ("SPECIFICATION Spec\n" + consts(TIER=f'"{ctx.tier}"', SEEDS=16, SEED=ctx.seed) + "INVARIANT Emit\nCHECK_DEADLOCK FALSE\n")

    vocab = json.load(open(os.path.join(ctx.rundir, "vocab.json"), encoding="utf-8"))

    def arity_valid(x, conn):
        """C03 speaks of ARITY-VALID lexical values: negation has one component, a difference two (the fold is lenient about more)"""
        if isinstance(x, dict):
            if x.get("k") == "Compound":
                n = len(x["terms"])
                if (x["connecter"] == conn["Negation"] and n != 1) or (x["connecter"] in (conn["DifferenceExtension"], conn["DifferenceIntension"]) and n != 2):
                    return False
            return all(arity_valid(y, conn) for y in x.values())
        if isinstance(x, list):
            return all(arity_valid(y, conn) for y in x)
        return True

    def to_pipe_l(c):
        v = c["v"]
        s = v["v"] if v["kind"] == "sentence" else v["v"]["sentence"] if v["kind"] == "task" else None
        if s is not None and (len(s["truth"]) > 2 or (v["kind"] == "task" and len(v["v"]["budget"]) > 3)):
            return None
        if not arity_valid(v, vocab["enum"][c["fmt"]]["conn"]):
            return None
        c["op"] = "pipe_l"
        return c
    K.parallel([(lambda f=f: K.pipeline(ctx, f, "c03lex", "MC_C02", lcfg, "J_Pipe", lambda c: True, workers=5, transform=to_pipe_l,
                                        shards=5 if ctx.tier == "thorough" else 2)) for f in K.FORMATS])
    exotic_stage(K, ctx, "c03exotic", "pipe_v", "J_Pipe")
    random_stage(K, ctx, "c03rand", lambda r, f: [dict({"op": "pipe_v", "fmt": f, "v": r["v"], "rand": True}, **({} if spellable(K, ctx, r["v"]) else {"exotic": True}))], "J_Pipe", nontrivial=nontrivial_value,
                 shards=2 if ctx.tier == "quick" else 6)
    ctx.exhaustive = not quick
    return {
        "note": "MC_Vocab.tla checks on the dumped tables that the enum and the lexical instance of each format describe the same keyword for all "
                "7 prefixes, 12 connecters, 13 copulas, 4 punctuations, both set brackets, all brackets / separators and the 4 stamp forms, and "
                "that first-match keyword tests are safe. Then every value of C01's universes is formatted by the REAL enum formatter and the "
                "text goes through both real pipelines (enum parse; lexical parse + fold), which must both be Ok and give the value; and every "
                "sugar text of C10's universe (derived copulas at top level and nested, multi-placeholder images, raw intervals) likewise.",
        "rule": "one case = (value or surface tree, format); non-trivial = not a bare atom",
        "assumptions": TRUSTED,
    }


# ------------------------------------------------------------------------------------------------ C02
def plan_c02(K, ctx):
    cfg = ("SPECIFICATION Spec\n" + consts(TIER=f'"{ctx.tier}"', SEEDS=16, SEED=ctx.seed) +
           "INVARIANT RoundTrip\nINVARIANT Emit\nCHECK_DEADLOCK FALSE\n")

    def nontrivial(c):
        v = c["v"]
        return v["kind"] != "term" or v["v"]["k"] != "Atom"

    K.parallel([(lambda f=f: K.pipeline(ctx, f, "c02", "MC_C02", cfg, "J_C02", nontrivial, workers=6,
                                        shards=5 if ctx.tier == "thorough" else 2)) for f in K.FORMATS])
    # M8 event traces (hooks of the lexical parser) on the texts the lexical formatter wrote for the universe above
    def lextrace(fmt):
        def run():
            src = os.path.join(ctx.rundir, f"c02_{fmt}.obs.ndjson")
            tcmds = os.path.join(ctx.rundir, f"c02lextrace_{fmt}.cmds.ndjson")
            tobs = os.path.join(ctx.rundir, f"c02lextrace_{fmt}.obs.ndjson")
            with open(tcmds, "w", encoding="utf-8") as g:
                for i, line in enumerate(open(src, encoding="utf-8")):
                    o = json.loads(line)["o"]
                    if "s" in o and (ctx.tier == "thorough" or i % 3 == ctx.seed % 3):
                        g.write(json.dumps({"op": "trace_lex", "fmt": fmt, "s": o["s"]}, ensure_ascii=False) + "\n")
            K.account(ctx, tcmds, lambda c: True)
            K.run_exec(ctx, tcmds, tobs)
            K.run_judge(ctx, "J_LexTrace", fmt, tobs, f"c02lextrace_{fmt}_judge", shards=2 if ctx.tier == "quick" else 5)
        return run
    K.parallel([lextrace(f) for f in K.FORMATS])
    exotic_stage(K, ctx, "c02exotic", "rt_lex", "J_C02")
    # seeded random lexical values: what the real lexical parser reads from the real enum formatter's text of random enum values
    # (rich names, random floats, huge stamps, depth <= 6) goes through the lexical format / parse round trip
    count = 3000 if ctx.tier == "quick" else 120000
    allv = os.path.join(ctx.rundir, "c02rand_values.ndjson")
    p = K.sh([K.NV, "drive", "values", str(ctx.seed), str(count), allv], 900)
    if p.returncode != 0:
        raise K.ToolError("nv drive values failed: " + (p.stdout or ""))
    alphabet = set(json.load(open(os.path.join(ctx.rundir, "vocab.json"), encoding="utf-8"))["alphabet"])

    def lex_names(x):
        if isinstance(x, dict):
            if "name" in x:
                yield x["name"]
            for v in x.values():
                yield from lex_names(v)
        elif isinstance(x, list):
            for v in x:
                yield from lex_names(v)

    def one(fmt):
        def run():
            pre_c = os.path.join(ctx.rundir, f"c02rand_{fmt}.pre_in.ndjson")
            pre_o = os.path.join(ctx.rundir, f"c02rand_{fmt}.pre_out.ndjson")
            cmds = os.path.join(ctx.rundir, f"c02rand_{fmt}.cmds.ndjson")
            obs = os.path.join(ctx.rundir, f"c02rand_{fmt}.obs.ndjson")
            with open(pre_c, "w", encoding="utf-8") as g:
                for line in open(allv, encoding="utf-8"):
                    r = json.loads(line)
                    if r["fmt"] == fmt:
                        g.write(json.dumps({"op": "pipe_v", "fmt": fmt, "v": r["v"]}, ensure_ascii=False) + "\n")
            K.run_exec(ctx, pre_c, pre_o)
            with open(cmds, "w", encoding="utf-8") as g:
                for line in open(pre_o, encoding="utf-8"):
                    o = json.loads(line)["o"]
                    if o.get("l", {}).get("r") == "ok":
                        lv = o["l"]["v"]
                        c = {"op": "rt_lex", "fmt": fmt, "v": lv, "rand": True}
                        if len(line) > 16000 or not all(ch in alphabet for n in lex_names(lv) for ch in n):
                            c["exotic"] = True
                        g.write(json.dumps(c, ensure_ascii=False) + "\n")
            K.account(ctx, cmds, nontrivial)
            K.run_exec(ctx, cmds, obs)
            K.run_judge(ctx, "J_C02", fmt, obs, f"c02rand_{fmt}_judge", shards=2 if ctx.tier == "quick" else 5)
        return run
    K.parallel([one(f) for f in K.FORMATS])
    ctx.exhaustive = ctx.tier == "thorough"
    return {
        "note": "LexParser.tla (M8: window [begin, right) cut by budget / truth / stamp / punctuation, recursive segmenters returning lengths) and "
                "the lexical formatter on the dumped lexical tables and dictionary orders. TLC checks ModelLexParse(ModelLexFormat(x)) = x and the "
                "length invariant for vocabulary-consistent values: every connecter with 1..3(4) components, both set brackets, all 13 copulas, "
                "depth-2 nesting, and sentences / tasks over {7 term endings} x 4 punctuations x 7 stamp texts x 4 truth lists (0..3 entries) x "
                "5 budget lists (0..4 entries); every value goes through the real lexical formatter and parser and is compared field for field.",
        "rule": "one case = (lexical value, format); non-trivial = not a bare atom",
        "assumptions": TRUSTED + ["names contain no keyword of the format (the statement's own restriction)"],
    }


# ------------------------------------------------------------------------------------------------ beyond the listed properties
def plan_x01(K, ctx):
    """M9: NarseseOptions (not one of the 17 properties; specification growth, DESIGN §10)"""
    depth = 3 if ctx.tier == "quick" else 4
    cfg = ("SPECIFICATION Spec\n" + consts(DEPTH=depth) + "INVARIANT Emit\nINVARIANT NeverCreates\nPROPERTY PredicatesPure\nPROPERTY FailedTakeTakesNothing\nCHECK_DEADLOCK FALSE\n")
    K.pipeline(ctx, "ascii", "x01", "MC_X01", cfg, "J_X01", lambda c: len(set(c["ops"])) > 1, workers=8, shards=3)
    cfg2 = "SPECIFICATION Spec\nINVARIANT Emit\nCHECK_DEADLOCK FALSE\n"
    K.parallel([(lambda f=f: K.pipeline(ctx, f, "x02", "MC_X02", cfg2, "J_X01", lambda c: len(c["truth"]) + len(c["budget"]) > 0, workers=4, shards=2)) for f in K.FORMATS])
    return {
        "note": f"Options.tla (M9): all operation sequences of length {depth} over the 11 public operations of NarseseOptions from all 32 slot sets, "
                "invariants NeverCreates / PredicatesPure / FailedTakeTakesNothing, every behaviour replayed on the real struct. Parts: every "
                "truth x budget x stamp x punctuation of a small envelope formatted and parsed on its own in all formats, folded from lexical "
                "lists, Truth setters.",
        "rule": "one case = (slot set, operation sequence) or (truth, budget, stamp, punctuation, format)",
        "assumptions": TRUSTED,
    }


def plan_x02(K, ctx):
    """translation between formats and idempotence of format . parse . format (not one of the 17 properties; DESIGN §10)"""
    quick = ctx.tier == "quick"
    cfg = ("SPECIFICATION Spec\n" + consts(TIER=f'"{ctx.tier}"', SEEDS=16, SEED=ctx.seed) + "INVARIANT Emit\nCHECK_DEADLOCK FALSE\n")
    pairs = [(a, b) for a in K.FORMATS for b in K.FORMATS if a != b]
    cmds = os.path.join(ctx.rundir, "x02.cmds.ndjson")
    obs = os.path.join(ctx.rundir, "x02.obs.ndjson")
    tmp = os.path.join(ctx.rundir, "x02_values.cmds.ndjson")
    open(tmp, "w").close()
    # (a) C01's enumerated universe (its names are legal in every format), every ordered pair of formats
    K.run_mc(ctx, "MC_C01", cfg, "ascii", "x02_values_mc", tmp, workers=8)
    rnd = random.Random(ctx.seed)
    with open(cmds, "w", encoding="utf-8") as g:
        for line in sorted(set(x for x in open(tmp, encoding="utf-8").read().split("\n") if x)):
            c = json.loads(line)
            for a, b in (pairs if not quick else [rnd.choice(pairs), rnd.choice(pairs)]):
                g.write(json.dumps({"op": "translate", "from": a, "to": b, "v": c["v"]}, ensure_ascii=False) + "\n")
        # (b) seeded random values whose names are ASCII letters, digits, '_' and inner '-' (legal in every format)
        allv = os.path.join(ctx.rundir, "x02_rand_values.ndjson")
        p = K.sh([K.NV, "drive", "values", str(ctx.seed), str(6000 if quick else 120000), allv], 900)
        if p.returncode != 0:
            raise K.ToolError("nv drive values failed: " + (p.stdout or ""))
        for line in open(allv, encoding="utf-8"):
            r = json.loads(line)
            if r["ascii_safe"]:
                a, b = rnd.choice(pairs)
                g.write(json.dumps({"op": "translate", "from": a, "to": b, "v": r["v"], "rand": True}, ensure_ascii=False) + "\n")
    K.account(ctx, cmds, nontrivial_value)
    K.run_exec(ctx, cmds, obs)
    K.run_judge(ctx, "J_Translate", "ascii", obs, "x02_judge", shards=3 if quick else 8)
    return {
        "note": "Translation: a value whose names are legal in every format goes format_F ; parse_F ; format_G ; parse_G ; format_F ; parse_F for ordered "
                "pairs (F, G) of the three formats and must come back as the same value each time (J_Translate compares canonical values), the "
                "translated value must compare equal under the real ==, and format(parse(format(v))) must be the text of format(v) up to the order "
                "of unordered components. Values: C01's enumerated universe (MC_C01) and seeded random values with ASCII-spelt names. The design-"
                "level statement is the composition of C01's RoundTrip invariant over two formats.",
        "rule": "one case = (value, source format, target format); non-trivial = not a bare atom",
        "assumptions": TRUSTED,
    }


PLANS = {
    "X01": plan_x01,
    "X02": plan_x02,
    "C01": plan_c01,
    "C02": plan_c02,
    "C03": plan_c03,
    "C15": plan_c15,
    "C11": plan_c11,
    "C16": plan_c16,
    "C06": lambda K, ctx: eqhash_plan(K, ctx, "C06"),
    "C07": lambda K, ctx: eqhash_plan(K, ctx, "C07"),
    "C04": lambda K, ctx: garbage_plan(K, ctx, "C04"),
    "C05": lambda K, ctx: garbage_plan(K, ctx, "C05"),
    "C12": lambda K, ctx: garbage_plan(K, ctx, "C12"),
    "C08": plan_c08,
    "C09": plan_c09,
    "C10": plan_c10,
    "C13": plan_c13,
    "C14": plan_c14,
    "C17": plan_c17,
}


# ------------------------------------------------------------------------------------------------ replay / selftest
JUDGE_OF = {"X01": "J_X01", "X02": "J_Translate", "C02": "J_C02", "C03": "J_Pipe", "C15": "J_C15", "C11": "J_C11", "C16": "J_C16", "C06": "J_C06", "C07": "J_C06", "C04": "J_Garbage", "C05": "J_Garbage", "C12": "J_Garbage", "C08": "J_C08", "C09": "J_Pipe", "C10": "J_Pipe", "C01": "J_C01", "C17": "J_C17", "C14": "J_C14", "C13": "J_C13"}


def replay(K, pid, path, seed):
    r = json.load(open(path, encoding="utf-8"))
    ctx = K.Ctx(pid + "_replay", "quick", seed)
    K.sh([K.NV, "dump-vocab", ctx.vocab], 120)
    cmds = os.path.join(ctx.rundir, "replay.cmds.ndjson")
    obs = os.path.join(ctx.rundir, "replay.obs.ndjson")
    if r["command"].get("op") == "lexicon":
        cfg = "SPECIFICATION Spec\n" + consts(TIER='"quick"', SEEDS=0, SEED=1) + "INVARIANT Lexicon\nCHECK_DEADLOCK FALSE\n"
        out, st = K.tlc("MC_C11", cfg, ctx.rundir, "replay_lexicon", ctx.env("ascii"), 1, K.JAVA_OPTS_MC, 600)
        if any("Lexicon is violated" in e for e in st["errors"]):
            K.log(f"VIOLATION property={pid} replay={path}")
            return 1
        K.log(f"replay of {path}: the property holds on the current tree")
        return 0
    todo = [r["command"]] + [c for c in r.get("context", []) if c != r["command"]]
    open(cmds, "w", encoding="utf-8").write("".join(json.dumps(c, ensure_ascii=False) + "\n" for c in todo))
    K.run_exec(ctx, cmds, obs, threads=1)
    bad = K.run_judge(ctx, r["judge"], r["fmt"], obs, "replay_judge", env_extra=r.get("judge_env"))
    bad = [b for b in bad if b[0] == 1]
    if bad:
        K.log(f"VIOLATION property={pid} replay={path}")
        K.log(f"  tags={bad[0][1]}")
        return 1
    K.log(f"replay of {path}: the property holds on the current tree")
    return 0


def judge_for(pid, obs_name):
    if "trace" in obs_name:
        return None                      # trace mismatches are DRIFT by design; not part of the selftest
    return JUDGE_OF[pid]


def selftest(K, ctx, meta):
    """corrupt recorded observations and require the judge to reject exactly those lines (DESIGN §6.4)"""
    import glob
    ok = True
    tested = 0
    for obs in sorted(glob.glob(os.path.join(ctx.rundir, "*.obs.ndjson"))):
        judge = judge_for(ctx.pid, os.path.basename(obs))
        if judge is None:
            continue
        lines = [x for x in open(obs, encoding="utf-8").read().split("\n") if x]
        if not lines:
            continue
        lines = lines[:20000]
        rnd = random.Random(ctx.seed)
        order = list(range(len(lines)))
        rnd.shuffle(order)
        changed = []
        for i in order:
            if len(changed) >= 4:
                break
            o = json.loads(lines[i])
            if corrupt(o, rnd, ctx.pid):
                lines[i] = json.dumps(o, ensure_ascii=False)
                changed.append(o["id"])
        bad_path = obs + ".corrupt"
        open(bad_path, "w", encoding="utf-8").write("\n".join(lines) + "\n")
        m = re.search(r"_(ascii|latex|han)\.obs\.ndjson$", obs)
        fmt = m.group(1) if m else "ascii"
        before = len(ctx.violations)
        bad = K.run_judge(ctx, judge, fmt, bad_path, "selftest_" + os.path.basename(obs).split(".")[0], env_extra=getattr(ctx, "judge_env", None))
        # rejections that are listed known findings (and were not corrupted here) are not the selftest's business
        known = [k for k in K.load_known() if k["property"] == ctx.pid]
        if known:
            byid = {json.loads(x)["id"]: json.loads(x) for x in lines if x}
            bad = [(i, tags) for i, tags in bad if i in changed or not any(k["re"].search(K.signature(byid[i], tags, fmt)) for k in known)]
        got = sorted(i for i, _ in bad)
        K.log(f"SELFTEST {os.path.basename(obs)}: corrupted {sorted(changed)}, judge rejected {got}")
        ok = ok and len(changed) > 0 and set(changed) <= set(got) and len(got) <= len(changed) + (400 if ctx.pid == "C16" else 0)
        tested += 1
        del ctx.violations[before:]
    K.log("SELFTEST " + ("passed" if ok and tested else "FAILED"))
    return 0 if ok and tested else 2


def corrupt(o, rnd, pid="", prop_env=None):
    """flip one recorded field of an observation in a way the property must notice; False if this observation cannot be used"""
    ob = o["o"]
    op = o["c"].get("op")
    try:
        if op == "mut" and len(ob.get("steps", [])) > 1:
            st = ob["steps"][rnd.randrange(1, len(ob["steps"]))]
            st["res"] = "ok" if st["res"] != "ok" else "err"
            return True
        if op == "rt_enum" and ob.get("r", {}).get("r") == "ok":
            ob["r"] = {"r": "err", "msg": "corrupted"}
            return True
        if op == "rt_lex" and ob.get("r", {}).get("r") == "ok":
            ob["r"] = {"r": "err", "msg": "corrupted"}
            return True
        if op == "translate" and ob.get("p2", {}).get("r") == "ok":
            k = rnd.choice(["p2", "refmt", "eq12"]) if "p3" in ob else "p2"
            if k == "p2":
                ob["p2"] = {"r": "ok", "v": {"kind": "term", "v": {"k": "Word", "n": "corrupted"}}}
            elif k == "refmt":
                ob["refmt_bag_same"] = False
            else:
                ob["eq12"] = False
            return True
        if op == "pipe_l":
            if ob.get("e", {}).get("r") == "ok" and ob.get("f", {}).get("r") == "ok":
                ob["f"] = {"r": "ok", "v": {"kind": "term", "v": {"k": "Word", "n": "corrupted"}}}
                return True
            return False
        if op in ("pipe", "pipe_v") and "e" in ob:
            if "classify" in o["c"]:
                if ob["e"].get("r") == "ok" and o["c"].get("has_term"):
                    ob["e"]["v"]["kind"] = "task" if ob["e"]["v"]["kind"] != "task" else "term"
                    return True
                return False
            if ("expect" in o["c"] or op == "pipe_v") and o["c"].get("only") != "lex" and ob["e"].get("r") == "ok":
                ob["e"] = {"r": "err", "msg": "corrupted"}
                return True
            if o["c"].get("only") == "lex" and ob["f"].get("r") == "ok":
                ob["f"] = {"r": "err", "msg": "corrupted"}
                return True
            return False
        if op == "parse_any":
            if pid == "C04":
                ob["stamp"] = {"r": "panic", "msg": "corrupted"}
                return True
            if pid == "C05":
                ob["lex_term"] = {"r": "panic", "msg": "corrupted"}
                return True
            if pid == "C12" and ob["truth"].get("r") == "ok" and len(ob["truth"]["v"]) > 0:
                ob["truth"]["v"][0] = "1.5"
                return True
            return False
        if op == "fold_any":
            if pid == "C05":
                ob["fold"] = {"r": "panic", "msg": "corrupted"}
                return True
            if pid == "C12" and ob["fold"].get("r") == "ok":
                ob["fmtable"] = {"ok": False, "bad": ["corrupted"]}
                return True
            return False
        if op == "multi" and ob.get("multi"):
            k = rnd.randrange(len(ob["multi"]))
            ob["multi"][k] = {"r": "err", "msg": "corrupted"} if ob["multi"][k]["r"] == "ok" else ob["alone"][(k + 1) % len(ob["alone"])] if ob["alone"][(k + 1) % len(ob["alone"])]["r"] == "ok" else {"r": "ok", "v": {"kind": "term", "v": {"k": "Word", "n": "corrupted"}}}
            return True
        if op == "eqhash" and ob.get("reps"):
            r = ob["reps"][0]
            if pid == "C06":
                r["ab"] = not r["ab"]
                return True
            if r["ab"]:
                r["contains"] = False
                return True
            return False
        if op == "eq3":
            if pid == "C06":
                ob["ab"] = not ob["ab"]
                return True
            return False
        if op == "eq_parse_twice" and ob.get("both_ok"):
            if pid == "C06":
                ob["eq"] = False
            else:
                ob["h_eq"] = False
            return True
        if op == "numbers":
            ob["budget_try"] = {"r": "err", "msg": "corrupted"} if ob["budget_try"]["r"] == "ok" else {"r": "ok", "bits": ob["in_bits"][:3]}
            return True
        if op == "accessors" and "pred" in ob:
            ob["pred"]["is_atom"] = not ob["pred"]["is_atom"]
            return True
        if op == "lex_accessors":
            ob["pred"]["category"] = "Statement" if ob["pred"]["category"] != "Statement" else "Atom"
            return True
        if op == "image_iter" and o["c"]["i"] <= o["c"]["n"] and ob.get("outs"):
            ob["outs"][0] = {"k": "None"} if ob["outs"][0].get("k") != "None" else {"k": "Placeholder"}
            return True
        if op == "lifecycle" and len(ob.get("steps", [])) > 1:
            st = ob["steps"][rnd.randrange(1, len(ob["steps"]))]
            st["res"] = {"r": "corrupted"}
            return True
        if op == "typst" and ob.get("texts") and ob["texts"][0].get("r") == "ok":
            ob["texts"][0]["s"] = " " + ob["texts"][0]["s"]
            return True
        if op == "ascii_out" and "kind" in ob:
            ob["kind"] = "task" if ob["kind"] != "task" else "term"
            return True
    except (KeyError, IndexError, TypeError):
        return False
    return False
