//! Seeded command generators for what the specification does not enumerate: long and deeply
//! nested inputs (up to 512 characters, nesting up to 64), random token soups, long digit runs.
//! Every generator is a pure function of (kind, seed, count).
use crate::vocab::{enum_format, FORMATS};
use rand::rngs::StdRng;
use rand::seq::SliceRandom;
use rand::{Rng, SeedableRng};
use serde_json::json;
use std::io::Write;

fn tokens(fmt: &str) -> Vec<String> {
    let f = enum_format(fmt);
    let mut t: Vec<&str> = vec![
        f.compound.brackets.0, f.compound.brackets.1, f.compound.separator,
        f.compound.brackets_set_extension.0, f.compound.brackets_set_extension.1,
        f.compound.brackets_set_intension.0, f.compound.brackets_set_intension.1,
        f.statement.brackets.0, f.statement.brackets.1,
        f.compound.connecter_conjunction, f.compound.connecter_disjunction, f.compound.connecter_negation,
        f.compound.connecter_conjunction_sequential, f.compound.connecter_conjunction_parallel,
        f.compound.connecter_intersection_extension, f.compound.connecter_intersection_intension,
        f.compound.connecter_difference_extension, f.compound.connecter_difference_intension,
        f.compound.connecter_product, f.compound.connecter_image_extension, f.compound.connecter_image_intension,
        f.sentence.punctuation_judgement, f.sentence.punctuation_goal, f.sentence.punctuation_question, f.sentence.punctuation_quest,
        f.sentence.stamp_brackets.0, f.sentence.stamp_brackets.1, f.sentence.stamp_fixed, f.sentence.stamp_past, f.sentence.stamp_present, f.sentence.stamp_future,
        f.sentence.truth_brackets.0, f.sentence.truth_brackets.1, f.sentence.truth_separator,
        f.task.budget_brackets.0, f.task.budget_brackets.1, f.task.budget_separator,
        f.atom.prefix_placeholder, f.atom.prefix_variable_independent, f.atom.prefix_variable_dependent, f.atom.prefix_variable_query,
        f.atom.prefix_interval, f.atom.prefix_operator,
        " in ", " in \"", "@", " @ 3 in \"", "from [", "\"", "\n\t", "Narsese", " ", "  ", "a", "b1", "go-to", "词", "0", "1", "0.5", "1.5", "-1", "+7", ".", "..", "-", "--", "é", "\t", "\n", "\u{3000}", "😀", "99999999999999999999999999", "²", "٣", "½", "①", "1.0000000000000002", "18446744073709551616", "0.0000001", "\u{2003}",
    ];
    t.extend(f.copulas());
    t.into_iter().filter(|s| !s.is_empty()).map(str::to_owned).collect()
}

fn clip(s: String, max: usize) -> String {
    s.chars().take(max).collect()
}

fn garbage(fmt: &str, rng: &mut StdRng) -> String {
    let f = enum_format(fmt);
    let toks = tokens(fmt);
    let openers = [
        (f.compound.brackets_set_extension.0, f.compound.brackets_set_extension.1),
        (f.compound.brackets_set_intension.0, f.compound.brackets_set_intension.1),
        (f.statement.brackets.0, f.statement.brackets.1),
        (f.compound.brackets.0, f.compound.brackets.1),
    ];
    match rng.gen_range(0..14) {
        // the real formatter's text of a random well-formed value with one to four random edits: near-valid input
        10..=13 => {
            let (v, _) = rand_value(fmt, rng);
            let text = match crate::proj::narsese_of(&v) { Ok(n) => f.format_narsese(&n), Err(_) => String::from("a") };
            let mut cs: Vec<char> = text.chars().collect();
            for _ in 0..rng.gen_range(1..=4) {
                if cs.is_empty() { break; }
                let i = rng.gen_range(0..cs.len());
                match rng.gen_range(0..7) {
                    0 => { cs.remove(i); }
                    1 => { let t: Vec<char> = toks.choose(rng).unwrap().chars().collect(); cs.splice(i..i, t); }
                    2 => { let t: Vec<char> = toks.choose(rng).unwrap().chars().collect(); cs.splice(i..=i, t); }
                    3 => { cs.truncate(i); }
                    4 => { if i + 1 < cs.len() { cs.swap(i, i + 1); } }
                    5 => { let j = rng.gen_range(i..cs.len().min(i + 12)); let d: Vec<char> = cs[i..=j].to_vec(); cs.splice(i..i, d); }
                    _ => { let j = rng.gen_range(i..cs.len().min(i + 12)); cs.drain(i..=j); }
                }
            }
            clip(cs.into_iter().collect(), 768)
        }
        // token soup of random length
        0 | 1 => {
            let n = rng.gen_range(1..120);
            clip((0..n).map(|_| toks.choose(rng).unwrap().as_str()).collect::<String>(), 512)
        }
        // deep nesting, closed or not, with a payload in the middle
        2 | 3 => {
            let depth = rng.gen_range(1..=64);
            let mut s = String::new();
            let mut closers = vec![];
            for _ in 0..depth {
                let (l, r) = openers.choose(rng).unwrap();
                s.push_str(l);
                if *l == f.compound.brackets.0 {
                    s.push_str(f.compound.connecter_product);
                    s.push_str(f.compound.separator);
                } else if *l == f.statement.brackets.0 {
                    s.push('a');
                    s.push_str(f.statement.copula_inheritance);
                }
                closers.push(*r);
            }
            s.push_str(toks.choose(rng).unwrap());
            let close = rng.gen_range(0..=depth);
            for r in closers.iter().rev().take(close) {
                s.push_str(r);
            }
            if rng.gen_bool(0.5) {
                s.push_str(f.sentence.punctuation_judgement);
            }
            clip(s, 512)
        }
        // long number lists and digit runs inside truth / budget / stamp / interval
        4 => {
            let digits: String = (0..rng.gen_range(1..400)).map(|_| char::from(b'0' + rng.gen_range(0..10u8))).collect();
            let (l, r) = *[f.sentence.truth_brackets, f.task.budget_brackets, (f.sentence.stamp_fixed, f.sentence.stamp_brackets.1), (f.atom.prefix_interval, "")]
                .choose(rng)
                .unwrap();
            let tail = if rng.gen_bool(0.5) { r } else { "" };
            clip(format!("a{}{}{}{}{}", f.sentence.punctuation_judgement, f.sentence.stamp_brackets.0, l, digits, tail), 512)
        }
        // a long flat compound
        5 => {
            let n = rng.gen_range(2..100);
            let mut s = format!("{}{}", f.compound.brackets.0, f.compound.connecter_conjunction);
            for i in 0..n {
                s.push_str(f.compound.separator);
                s.push_str(&format!("w{i}"));
            }
            if rng.gen_bool(0.7) {
                s.push_str(f.compound.brackets.1);
            }
            clip(s, 512)
        }
        // a chain of nested symmetric statements inside a set (exponential if both operand orders are visited per level)
        7 => {
            let d = rng.gen_range(20..48);
            let cop = *[f.statement.copula_similarity, f.statement.copula_equivalence, f.statement.copula_equivalence_concurrent].choose(rng).unwrap();
            let mut s = String::from("a");
            for _ in 0..d {
                s = format!("{}{}{}b{}", f.statement.brackets.0, s, cop, f.statement.brackets.1);
            }
            clip(format!("{}{}{}", f.compound.brackets_set_extension.0, s, f.compound.brackets_set_extension.1), 512)
        }
        // names made of characters beyond the BMP: emoji, variation selectors, tag characters, mathematical letters
        8 => {
            let exotic = ["\u{e0100}", "\u{e0101}\u{e0100}", "\u{1f3f4}\u{e0067}\u{e0062}\u{e007f}", "\u{1fb00}", "\u{1d4b3}", "\u{1f600}", "a\u{e0100}", "\u{1faff}\u{1fb00}"];
            let n = *exotic.choose(rng).unwrap();
            let pre = *[f.atom.prefix_word, f.atom.prefix_variable_independent, f.atom.prefix_operator, f.atom.prefix_variable_query].choose(rng).unwrap();
            match rng.gen_range(0..3) {
                0 => format!("{pre}{n}"),
                1 => format!("{}{pre}{n}{}b{}{}", f.statement.brackets.0, f.statement.copula_inheritance, f.statement.brackets.1, f.sentence.punctuation_judgement),
                _ => format!("{}{pre}{n}{}", f.compound.brackets_set_extension.0, f.compound.brackets_set_extension.1),
            }
        }
        // arbitrary unicode scalar values
        _ => {
            let n = rng.gen_range(1..64);
            (0..n).map(|_| char::from_u32(rng.gen_range(0x20..0x2ffff)).unwrap_or('x')).collect()
        }
    }
}

// ---------------------------------------------------------------- random well-formed enum values
const NAME_PARTS: [&str; 30] = ["p--q", "m--", "a", "b", "word", "x1", "A_b", "go", "to", "SELF", "robin", "é", "Ω", "词", "项", "名", "甲", "乙", "²", "２", "٣", "½", "①",
    "Z", "q7", "_", "k9", "long", "naïve", "ß"];

thread_local! { static ASCII_ONLY: std::cell::Cell<bool> = std::cell::Cell::new(false); static NODES: std::cell::Cell<usize> = std::cell::Cell::new(0);
    static EXOTIC: std::cell::Cell<bool> = std::cell::Cell::new(false);
    // relations inside one value: names and whole sub-terms generated earlier in the same value are reused now and then
    static USED_NAMES: std::cell::RefCell<Vec<(String, bool)>> = std::cell::RefCell::new(vec![]);
    static USED_TERMS: std::cell::RefCell<Vec<(serde_json::Value, bool)>> = std::cell::RefCell::new(vec![]); }

fn rand_name(fmt: &str, rng: &mut StdRng) -> (String, bool) {
    if rng.gen_bool(0.25) {
        if let Some(x) = USED_NAMES.with(|u| u.borrow().choose(rng).cloned()) {
            return x;
        }
    }
    let r = rand_name_fresh(fmt, rng);
    USED_NAMES.with(|u| u.borrow_mut().push(r.clone()));
    r
}

fn rand_name_fresh(fmt: &str, rng: &mut StdRng) -> (String, bool) {
    let f = enum_format(fmt);
    let ascii_only = ASCII_ONLY.with(|c| c.get());
    loop {
        // rarely a very long name, at lengths around the usual buffer and counter sizes
        if rng.gen_bool(0.001) {
            let n = *[127usize, 128, 255, 256, 257].choose(rng).unwrap();
            let s: String = (0..n).map(|i| if i % 7 == 3 { 'b' } else { 'a' }).collect();
            return (s, true);
        }
        if rng.gen_bool(0.03) {
            // a name that reads like a number (the text of an interval, of a truth value, of a stamp)
            return ((*["7", "42", "007", "0", "1", "18446744073709551615", "05"].choose(rng).unwrap()).to_string(), true);
        }
        let n_parts = *[1usize, 1, 1, 2, 2, 3, 5, 12, 30].choose(rng).unwrap();
        let mut s = String::new();
        for i in 0..n_parts {
            if i > 0 && rng.gen_bool(0.25) {
                s.push(if rng.gen_bool(0.5) { '-' } else { '_' });
            }
            let part = NAME_PARTS.choose(rng).unwrap();
            s.push_str(if ascii_only && !part.is_ascii() { "w" } else { part });
        }
        if rng.gen_bool(0.1) {
            s = format!("{}{}", rng.gen_range(0..100000u32), s);
        }
        let exotic = !ascii_only && rng.gen_bool(0.06);
        if exotic {
            EXOTIC.with(|c| c.set(true));
            match rng.gen_range(0..3) {
                0 => s.push_str(["\u{1d4b3}", "\u{1f600}", "\u{20000}", "\u{e0100}"].choose(rng).unwrap()),
                // characters whose UTF-8 bytes look like something else when read bytewise (0x85 NEL, 0xA0 NBSP, 0xAD, 0xC2 ...)
                1 => s.push_str(["Ņ", "à", "充", "Ⅰ", "ㅠ", "ａ", "­x", "\u{a0a0}", "\u{2160}\u{2160}", "\u{5145}\u{3160}", "İ", "ǅ", "ß", "ﬁ", "\u{0345}a", "e\u{301}"].choose(rng).unwrap()),
                // one to three arbitrary alphanumeric scalar values
                _ => for _ in 0..rng.gen_range(1..=3) {
                    for _try in 0..50 {
                        if let Some(c) = char::from_u32(rng.gen_range(0x80..0x30000u32)) {
                            if c.is_alphanumeric() { s.push(c); break; }
                        }
                    }
                },
            }
        }
        // well-formed by C01's definition, for this format
        let prefixes = [f.atom.prefix_placeholder, f.atom.prefix_variable_independent, f.atom.prefix_variable_dependent, f.atom.prefix_variable_query,
                        f.atom.prefix_interval, f.atom.prefix_operator];
        let ok = !s.is_empty() && s.chars().all(|c| (f.is_valid_atom_name)(c)) && !s.starts_with('-') && !s.ends_with('-') && !s.starts_with('_')
            && !prefixes.iter().any(|p| !p.is_empty() && s.starts_with(p)) && !f.copulas().iter().any(|c| s.contains(c));
        if ok {
            let ascii_safe = s.chars().all(|c| c.is_ascii_alphanumeric() || c == '_' || c == '-');
            return (s, ascii_safe);
        }
    }
}

fn rand_unit(rng: &mut StdRng) -> String {
    let x: f64 = match rng.gen_range(0..10) {
        0 => 0.0,
        1 => 1.0,
        2 => rng.gen::<f64>(),
        3 => (rng.gen_range(0..=1000u32) as f64) / 1000.0,
        4 => 10f64.powi(-rng.gen_range(1..300)),
        5 => 1.0 - 2f64.powi(-rng.gen_range(1..53)),
        6 => *[f64::from_bits(1), f64::MIN_POSITIVE, f64::from_bits(0x000f_ffff_ffff_ffff), 0.1 + 0.2, 1.0 - f64::EPSILON / 2.0, f64::EPSILON, 0.5, 0.49999999999999994]
            .choose(rng).unwrap(),
        8 => f64::from_bits(rng.gen_range(1..0x3ff0_0000_0000_0000u64)),
        _ => (rng.gen_range(0..=100u32) as f64) / 100.0,
    };
    x.to_string()
}

fn rand_term(fmt: &str, rng: &mut StdRng, depth: usize, ascii_safe: &mut bool) -> serde_json::Value {
    if rng.gen_bool(0.08) {
        if let Some((t, safe)) = USED_TERMS.with(|u| u.borrow().choose(rng).cloned()) {
            *ascii_safe &= safe;
            return t;
        }
    }
    let mut safe = true;
    let t = rand_term_fresh(fmt, rng, depth, &mut safe);
    *ascii_safe &= safe;
    if t.to_string().len() < 400 {
        USED_TERMS.with(|u| u.borrow_mut().push((t.clone(), safe)));
    }
    t
}

fn rand_term_fresh(fmt: &str, rng: &mut StdRng, depth: usize, ascii_safe: &mut bool) -> serde_json::Value {
    let atom = |rng: &mut StdRng, ascii_safe: &mut bool| -> serde_json::Value {
        match rng.gen_range(0..9) {
            0 => json!({"k":"Interval","n": match rng.gen_range(0..5) { 0 => rng.gen_range(0..100u64).to_string(), 1 => u64::MAX.to_string(), 2 => rng.gen::<u64>().to_string(),
                3 => { let b = *[8u32, 16, 24, 31, 32, 53, 63, 64].choose(rng).unwrap(); let p = if b == 64 { u64::MAX } else { 1u64 << b }; [p.wrapping_sub(1), p, p.saturating_add(1)].choose(rng).unwrap().to_string() }
                _ => rng.gen::<u32>().to_string() }}),
            k => {
                let (n, safe) = rand_name(fmt, rng);
                *ascii_safe &= safe;
                json!({"k": (["Word", "Word", "Word", "Word", "VariableIndependent", "VariableDependent", "VariableQuery", "Operator", "Word"][k]), "n": n})
            }
        }
    };
    let spent = NODES.with(|c| { c.set(c.get() + 1); c.get() });
    if depth == 0 || spent > 40 || rng.gen_bool(0.3) {
        return atom(rng, ascii_safe);
    }
    let mut kids = |rng: &mut StdRng, lo: usize, hi: usize, ascii_safe: &mut bool| -> Vec<serde_json::Value> {
        // now and then a wide node (counts around powers of two), made of atoms
        if hi >= 4 && rng.gen_bool(0.03) {
            let n = *[9usize, 16, 17, 32, 33, 34, 64, 65, 70].choose(rng).unwrap();
            return (0..n).map(|_| rand_term(fmt, rng, 0, ascii_safe)).collect();
        }
        let n = rng.gen_range(lo..=hi);
        (0..n).map(|_| rand_term(fmt, rng, depth - 1, ascii_safe)).collect()
    };
    match rng.gen_range(0..30) {
        0..=6 => json!({"k": (["SetExtension", "SetIntension", "IntersectionExtension", "IntersectionIntension", "Conjunction", "Disjunction", "ConjunctionParallel"][rng.gen_range(0..7)]), "s": kids(rng, 1, 5, ascii_safe)}),
        7 | 8 => json!({"k": (["Product", "ConjunctionSequential"][rng.gen_range(0..2)]), "q": kids(rng, 1, 5, ascii_safe)}),
        9 | 10 => {
            let q = kids(rng, 0, 4, ascii_safe);
            let i = rng.gen_range(0..=q.len());
            json!({"k": (["ImageExtension", "ImageIntension"][rng.gen_range(0..2)]), "i": i, "q": q})
        }
        11 => json!({"k":"Negation","a": rand_term(fmt, rng, depth - 1, ascii_safe)}),
        12 | 13 => json!({"k": (["DifferenceExtension", "DifferenceIntension"][rng.gen_range(0..2)]), "a": rand_term(fmt, rng, depth - 1, ascii_safe), "b": rand_term(fmt, rng, depth - 1, ascii_safe)}),
        _ => json!({"k": (["Inheritance", "Similarity", "Implication", "Equivalence", "ImplicationPredictive", "ImplicationConcurrent", "ImplicationRetrospective",
                          "EquivalencePredictive", "EquivalenceConcurrent"][rng.gen_range(0..9)]),
                    "a": rand_term(fmt, rng, depth - 1, ascii_safe), "b": rand_term(fmt, rng, depth - 1, ascii_safe)}),
    }
}

fn rand_value(fmt: &str, rng: &mut StdRng) -> (serde_json::Value, bool) {
    let mut safe = true;
    ASCII_ONLY.with(|c| c.set(rng.gen_bool(0.4)));
    NODES.with(|c| c.set(0));
    EXOTIC.with(|c| c.set(false));
    USED_NAMES.with(|u| u.borrow_mut().clear());
    USED_TERMS.with(|u| u.borrow_mut().clear());
    let depth = *[0usize, 1, 2, 2, 3, 3, 4, 6].choose(rng).unwrap();
    let t = rand_term(fmt, rng, depth, &mut safe);
    let v = match rng.gen_range(0..3) {
        0 => json!({"kind":"term","v":t}),
        k => {
            let p = ["Judgement", "Goal", "Question", "Quest"][rng.gen_range(0..4)];
            let st = match rng.gen_range(0..6) {
                0 => json!({"k":"Eternal"}), 1 => json!({"k":"Past"}), 2 => json!({"k":"Present"}), 3 => json!({"k":"Future"}),
                4 => json!({"k":"Fixed","n": if rng.gen_bool(0.3) { let b = *[31u32, 32, 53, 63].choose(rng).unwrap(); let p = if b == 63 { i64::MAX } else { 1i64 << b };
                        let x = *[p - 1, p, p.saturating_add(1)].choose(rng).unwrap(); (if rng.gen_bool(0.5) { x } else { x.wrapping_neg() }).to_string() } else { rng.gen::<i64>().to_string() }}),
                _ => json!({"k":"Fixed","n": rng.gen_range(-1000..1000i64).to_string()}),
            };
            let tr: Vec<String> = if p == "Question" || p == "Quest" { vec![] } else { (0..rng.gen_range(0..=2)).map(|_| rand_unit(rng)).collect() };
            let s = json!({"t":t,"p":p,"st":st,"tr":tr});
            if k == 1 { json!({"kind":"sentence","v":s}) } else {
                let b: Vec<String> = (0..rng.gen_range(0..=3)).map(|_| rand_unit(rng)).collect();
                json!({"kind":"task","v":{"b":b,"s":s}})
            }
        }
    };
    (v, safe)
}

pub fn drive(kind: &str, seed: u64, count: usize, out: &str) {
    let mut w = std::io::BufWriter::new(std::fs::File::create(out).expect("create"));
    let mut rng = StdRng::seed_from_u64(seed);
    match kind {
        "garbage" => {
            for i in 0..count {
                let fmt = FORMATS[i % 3];
                let s = garbage(fmt, &mut rng);
                writeln!(w, "{}", json!({"op":"parse_any","fmt":fmt,"s":s,"drive":true})).unwrap();
            }
        }
        "values" => {
            // seeded random well-formed enum values (names from a rich pool, random floats / stamps / intervals, depth up to 6)
            // a fixed handful of very large values per format (sizes around 2^7, 2^8, 2^10, 2^12), whatever the count
            for fmt in FORMATS {
                let atom = |i: usize| json!({"k":"Word","n":format!("w{i}")});
                let long = |n: usize| -> String { (0..n).map(|i| if i % 7 == 3 { 'b' } else { 'a' }).collect() };
                let big = [
                    json!({"k":"SetExtension","s":(0..257).map(atom).collect::<Vec<_>>()}),
                    json!({"k":"Product","q":(0..1025).map(atom).collect::<Vec<_>>()}),
                    json!({"k":"Inheritance","a":{"k":"Conjunction","s":(0..129).map(atom).collect::<Vec<_>>()},"b":{"k":"ImageExtension","i":128,"q":(0..128).map(atom).collect::<Vec<_>>()}}),
                    json!({"k":"Similarity","a":{"k":"Word","n":long(256)},"b":{"k":"VariableDependent","n":long(1000)}}),
                    json!({"k":"Negation","a":{"k":"Operator","n":long(4097)}}),
                ];
                for (k, t) in big.iter().enumerate() {
                    let v = if k % 2 == 0 { json!({"kind":"term","v":t}) } else {
                        json!({"kind":"task","v":{"b":["0.5","0.75"],"s":{"t":t,"p":"Judgement","st":{"k":"Fixed","n":"-9007199254740993"},"tr":["1","0.9"]}}}) };
                    writeln!(w, "{}", json!({"fmt":fmt,"v":v,"ascii_safe":true,"rand":true,"exotic":true,"huge":true})).unwrap();
                }
            }
            for i in 0..count {
                let fmt = FORMATS[i % 3];
                let (v, safe) = rand_value(fmt, &mut rng);
                writeln!(w, "{}", json!({"fmt":fmt,"v":v,"ascii_safe":safe,"rand":true,"exotic":EXOTIC.with(|c| c.get())})).unwrap();
            }
        }
        "names" => {
            // exotic atom names the TLA+ side cannot spell (characters beyond the BMP, combining marks, rare scripts); a name is
            // used for a format only if every character satisfies that format's own `is_valid_atom_name`
            let pool = [
                "\u{1f3f4}\u{e0067}\u{e0062}\u{e0065}\u{e006e}\u{e0067}\u{e007f}", "\u{1fb00}", "\u{1fb93}x", "\u{e0100}", "a\u{e0100}", "\u{1d4b3}", "\u{1d7d8}\u{1d7d9}",
                "\u{1f600}", "\u{1f468}", "\u{1f1e8}\u{1f1f3}", "x\u{1faff}\u{1fb00}y", "\u{aa}", "\u{ba}a", "\u{1c5}", "\u{216b}", "\u{96b}", "a\u{96b}", "\u{0e51}\u{0e52}",
                "\u{20000}", "\u{2f800}", "\u{10400}", "\u{1e900}\u{1e922}", "Straße", "ÀÉÎ", "ǆ", "\u{3b1}\u{3b2}", "\u{5d0}\u{5d1}", "\u{627}\u{628}", "na\u{ef}ve",
                "\u{4e00}\u{4e8c}\u{4e09}", "\u{ff21}\u{ff41}", "\u{2160}\u{2161}", "\u{3007}", "\u{2460}\u{2461}", "\u{bc}\u{bd}", "x\u{2074}", "\u{1f100}",
            ];
            let kinds = ["Word", "VariableIndependent", "VariableQuery", "Operator"];
            let mut n_out = 0usize;
            'outer: for fmt in FORMATS {
                let f = enum_format(fmt);
                for name in pool {
                    if !name.chars().all(|c| (f.is_valid_atom_name)(c)) {
                        continue;
                    }
                    for kind in kinds {
                        let atom = json!({"k": kind, "n": name});
                        let b = json!({"k": "Word", "n": "b"});
                        let terms = vec![
                            atom.clone(),
                            json!({"k":"Inheritance","a":atom,"b":b}), json!({"k":"Similarity","a":b,"b":atom}),
                            json!({"k":"SetExtension","s":[atom]}), json!({"k":"Product","q":[b, atom, b]}), json!({"k":"Negation","a":atom}),
                        ];
                        for t in terms {
                            for v in [json!({"kind":"term","v":t}),
                                      json!({"kind":"sentence","v":{"t":t,"p":"Judgement","st":{"k":"Present"},"tr":["1","0.9"]}}),
                                      json!({"kind":"task","v":{"b":["0.5"],"s":{"t":t,"p":"Question","st":{"k":"Eternal"},"tr":[]}}})] {
                                writeln!(w, "{}", json!({"op":"rt_enum","fmt":fmt,"v":v,"exotic":name})).unwrap();
                                writeln!(w, "{}", json!({"op":"pipe_v","fmt":fmt,"v":v,"exotic":name})).unwrap();
                                n_out += 2;
                            }
                        }
                        // the lexical counterpart (C02): prefix of the kind + the same name
                        let prefix = match kind { "Word" => f.atom.prefix_word, "VariableIndependent" => f.atom.prefix_variable_independent,
                                                  "VariableQuery" => f.atom.prefix_variable_query, _ => f.atom.prefix_operator };
                        let la = json!({"k":"Atom","prefix":prefix,"name":name});
                        let lb = json!({"k":"Atom","prefix":"","name":"b"});
                        for lt in [la.clone(), json!({"k":"Statement","copula":f.statement.copula_inheritance,"subject":la,"predicate":lb}),
                                   json!({"k":"Compound","connecter":f.compound.connecter_product,"terms":[lb, la]}),
                                   json!({"k":"Set","left":f.compound.brackets_set_intension.0,"right":f.compound.brackets_set_intension.1,"terms":[la]})] {
                            writeln!(w, "{}", json!({"op":"rt_lex","fmt":fmt,"v":{"kind":"term","v":lt},"exotic":name})).unwrap();
                            writeln!(w, "{}", json!({"op":"rt_lex","fmt":fmt,"v":{"kind":"sentence","v":{"term":lt,"punctuation":f.sentence.punctuation_goal,"stamp":"","truth":["1"]}},"exotic":name})).unwrap();
                            n_out += 2;
                        }
                        if count > 0 && n_out >= count * 3 {
                            break 'outer;
                        }
                    }
                }
            }
            let _ = seed;
        }
        other => {
            eprintln!("unknown drive kind {other}");
            std::process::exit(2);
        }
    }
}
