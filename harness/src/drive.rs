//! Seeded command generators for what the specification does not enumerate: long and deeply
//! nested inputs (up to 512 characters, nesting up to 64), random token soups, long digit runs.
//! Every generator is a pure function of (kind, seed, count).
use crate::vocab::{enum_format, FORMATS};
use rand::rngs::StdRng;
use rand::seq::SliceRandom;
use rand::{Rng, SeedableRng};
use serde_json::json;
use std::io::Write;

fn tokens(fmt: &str) -> Vec<String> {
    let f = enum_format(fmt);
    let mut t: Vec<&str> = vec![
        f.compound.brackets.0, f.compound.brackets.1, f.compound.separator,
        f.compound.brackets_set_extension.0, f.compound.brackets_set_extension.1,
        f.compound.brackets_set_intension.0, f.compound.brackets_set_intension.1,
        f.statement.brackets.0, f.statement.brackets.1,
        f.compound.connecter_conjunction, f.compound.connecter_disjunction, f.compound.connecter_negation,
        f.compound.connecter_conjunction_sequential, f.compound.connecter_conjunction_parallel,
        f.compound.connecter_intersection_extension, f.compound.connecter_intersection_intension,
        f.compound.connecter_difference_extension, f.compound.connecter_difference_intension,
        f.compound.connecter_product, f.compound.connecter_image_extension, f.compound.connecter_image_intension,
        f.sentence.punctuation_judgement, f.sentence.punctuation_goal, f.sentence.punctuation_question, f.sentence.punctuation_quest,
        f.sentence.stamp_brackets.0, f.sentence.stamp_brackets.1, f.sentence.stamp_fixed, f.sentence.stamp_past, f.sentence.stamp_present, f.sentence.stamp_future,
        f.sentence.truth_brackets.0, f.sentence.truth_brackets.1, f.sentence.truth_separator,
        f.task.budget_brackets.0, f.task.budget_brackets.1, f.task.budget_separator,
        f.atom.prefix_placeholder, f.atom.prefix_variable_independent, f.atom.prefix_variable_dependent, f.atom.prefix_variable_query,
        f.atom.prefix_interval, f.atom.prefix_operator,
        " ", "  ", "a", "b1", "go-to", "词", "0", "1", "0.5", "1.5", "-1", "+7", ".", "..", "-", "--", "é", "\t", "\n", "\u{3000}", "😀", "99999999999999999999999999", "²", "٣", "½", "①", "1.0000000000000002", "18446744073709551616", "0.0000001", "\u{2003}",
    ];
    t.extend(f.copulas());
    t.into_iter().filter(|s| !s.is_empty()).map(str::to_owned).collect()
}

fn clip(s: String, max: usize) -> String {
    s.chars().take(max).collect()
}

fn garbage(fmt: &str, rng: &mut StdRng) -> String {
    let f = enum_format(fmt);
    let toks = tokens(fmt);
    let openers = [
        (f.compound.brackets_set_extension.0, f.compound.brackets_set_extension.1),
        (f.compound.brackets_set_intension.0, f.compound.brackets_set_intension.1),
        (f.statement.brackets.0, f.statement.brackets.1),
        (f.compound.brackets.0, f.compound.brackets.1),
    ];
    match rng.gen_range(0..7) {
        // token soup of random length
        0 | 1 => {
            let n = rng.gen_range(1..120);
            clip((0..n).map(|_| toks.choose(rng).unwrap().as_str()).collect::<String>(), 512)
        }
        // deep nesting, closed or not, with a payload in the middle
        2 | 3 => {
            let depth = rng.gen_range(1..=64);
            let mut s = String::new();
            let mut closers = vec![];
            for _ in 0..depth {
                let (l, r) = openers.choose(rng).unwrap();
                s.push_str(l);
                if *l == f.compound.brackets.0 {
                    s.push_str(f.compound.connecter_product);
                    s.push_str(f.compound.separator);
                } else if *l == f.statement.brackets.0 {
                    s.push('a');
                    s.push_str(f.statement.copula_inheritance);
                }
                closers.push(*r);
            }
            s.push_str(toks.choose(rng).unwrap());
            let close = rng.gen_range(0..=depth);
            for r in closers.iter().rev().take(close) {
                s.push_str(r);
            }
            if rng.gen_bool(0.5) {
                s.push_str(f.sentence.punctuation_judgement);
            }
            clip(s, 512)
        }
        // long number lists and digit runs inside truth / budget / stamp / interval
        4 => {
            let digits: String = (0..rng.gen_range(1..400)).map(|_| char::from(b'0' + rng.gen_range(0..10u8))).collect();
            let (l, r) = *[f.sentence.truth_brackets, f.task.budget_brackets, (f.sentence.stamp_fixed, f.sentence.stamp_brackets.1), (f.atom.prefix_interval, "")]
                .choose(rng)
                .unwrap();
            let tail = if rng.gen_bool(0.5) { r } else { "" };
            clip(format!("a{}{}{}{}{}", f.sentence.punctuation_judgement, f.sentence.stamp_brackets.0, l, digits, tail), 512)
        }
        // a long flat compound
        5 => {
            let n = rng.gen_range(2..100);
            let mut s = format!("{}{}", f.compound.brackets.0, f.compound.connecter_conjunction);
            for i in 0..n {
                s.push_str(f.compound.separator);
                s.push_str(&format!("w{i}"));
            }
            if rng.gen_bool(0.7) {
                s.push_str(f.compound.brackets.1);
            }
            clip(s, 512)
        }
        // arbitrary unicode scalar values
        _ => {
            let n = rng.gen_range(1..64);
            (0..n).map(|_| char::from_u32(rng.gen_range(0x20..0x2ffff)).unwrap_or('x')).collect()
        }
    }
}

pub fn drive(kind: &str, seed: u64, count: usize, out: &str) {
    let mut w = std::io::BufWriter::new(std::fs::File::create(out).expect("create"));
    let mut rng = StdRng::seed_from_u64(seed);
    match kind {
        "garbage" => {
            for i in 0..count {
                let fmt = FORMATS[i % 3];
                let s = garbage(fmt, &mut rng);
                writeln!(w, "{}", json!({"op":"parse_any","fmt":fmt,"s":s,"drive":true})).unwrap();
            }
        }
        other => {
            eprintln!("unknown drive kind {other}");
            std::process::exit(2);
        }
    }
}
