//! Seeded command generators for what the specification does not enumerate (long / deep / garbage).
//! Filled in per property; every generator is a pure function of (kind, seed, count).
pub fn drive(kind: &str, _seed: u64, _count: usize, _out: &str) {
    eprintln!("unknown drive kind {kind}");
    std::process::exit(2);
}
