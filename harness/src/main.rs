//! `nv`: the conformance harness between the TLA+ specification and the real Narsese.rs.
//!
//!   nv dump-vocab OUT.json                 the code's own tables and character classes
//!   nv exec CMDS.ndjson OBS.ndjson [N]     run every command, write one observation per command
//!   nv drive KIND SEED COUNT OUT.ndjson    seeded commands the specification does not enumerate
mod drive;
mod exec;
mod proj;
mod vocab;

use serde_json::{json, Value};
use std::io::{BufRead, BufWriter, Write};
use std::sync::mpsc;
use std::time::Duration;

const WATCHDOG: Duration = Duration::from_secs(20);
const STACK: usize = 256 << 20;

fn spawn_worker() -> (mpsc::Sender<Value>, mpsc::Receiver<Value>) {
    let (tx_cmd, rx_cmd) = mpsc::channel::<Value>();
    let (tx_obs, rx_obs) = mpsc::channel::<Value>();
    std::thread::Builder::new()
        .stack_size(STACK)
        .spawn(move || {
            for c in rx_cmd {
                // a quarter of the commands run with freshly allocated copies of the format (see vocab::set_owned)
                let owned = c.get("owned").and_then(|x| x.as_bool()).unwrap_or(false);
                if owned {
                    if let Some(f) = c.get("fmt").and_then(|x| x.as_str()) {
                        vocab::set_owned(Some(f));
                    }
                }
                let o = match std::panic::catch_unwind(std::panic::AssertUnwindSafe(|| exec::run(&c))) {
                    Ok(o) => o,
                    Err(_) => json!({"harness_panic": true}),
                };
                if owned {
                    vocab::set_owned(None);
                }
                if tx_obs.send(o).is_err() {
                    break;
                }
            }
        })
        .expect("spawn");
    (tx_cmd, rx_obs)
}

fn exec_file(inp: &str, out: &str, threads: usize) {
    exec::install_panic_hook();
    let lines: Vec<String> = std::io::BufReader::new(std::fs::File::open(inp).expect("open commands"))
        .lines()
        .map(|l| l.expect("read"))
        .filter(|l| !l.trim().is_empty())
        .collect();
    let n = lines.len();
    let lines = std::sync::Arc::new(lines);
    let mut handles = vec![];
    for k in 0..threads {
        let lines = lines.clone();
        handles.push(std::thread::spawn(move || {
            let mut res: Vec<(usize, String)> = vec![];
            let (mut tx, mut rx) = spawn_worker();
            let mut i = k;
            while i < lines.len() {
                let mut c: Value = serde_json::from_str(&lines[i]).unwrap_or_else(|e| panic!("bad command line {}: {e}", i + 1));
                if i % 4 == 3 && c.get("fmt").is_some() && c.get("owned").is_none() {
                    c["owned"] = json!(true);
                }
                let t0 = std::time::Instant::now();
                tx.send(c.clone()).expect("send");
                let o = match rx.recv_timeout(WATCHDOG) {
                    Ok(o) => o,
                    Err(_) => {
                        // the stuck worker is abandoned; a fresh one takes over
                        let (t, r) = spawn_worker();
                        tx = t;
                        rx = r;
                        json!({"timeout": true})
                    }
                };
                let us = t0.elapsed().as_micros() as u64;
                res.push((i, json!({"id": i + 1, "c": c, "o": o, "us": us}).to_string()));
                i += threads;
            }
            res
        }));
    }
    let mut all: Vec<Option<String>> = vec![None; n];
    for h in handles {
        for (i, s) in h.join().expect("join") {
            all[i] = Some(s);
        }
    }
    let mut w = BufWriter::new(std::fs::File::create(out).expect("create obs"));
    for s in all {
        writeln!(w, "{}", s.expect("missing observation")).unwrap();
    }
    w.flush().unwrap();
}

fn main() {
    let a: Vec<String> = std::env::args().collect();
    match a.get(1).map(|s| s.as_str()) {
        Some("dump-vocab") => {
            let v = vocab::dump();
            std::fs::write(&a[2], serde_json::to_string_pretty(&v).unwrap()).expect("write vocab");
        }
        Some("exec") => {
            let threads = a.get(4).and_then(|s| s.parse().ok()).unwrap_or(4);
            exec_file(&a[2], &a[3], threads);
            // abandoned (timed-out) workers must not keep the process alive
            std::process::exit(0);
        }
        Some("drive") => {
            let seed: u64 = a[3].parse().expect("seed");
            let count: usize = a[4].parse().expect("count");
            drive::drive(&a[2], seed, count, &a[5]);
        }
        _ => {
            eprintln!("usage: nv dump-vocab OUT | exec CMDS OBS [threads] | drive KIND SEED COUNT OUT");
            std::process::exit(2);
        }
    }
}
