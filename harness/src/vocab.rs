//! `nv dump-vocab`: the code's own format tables, dictionary iteration orders, Typst constants and
//! character classes, as data for the specification (DESIGN §6.1).
use nar_dev_utils::{PrefixMatch, SuffixMatch};
use narsese::conversion::string::impl_enum::{format_instances as ef, NarseseFormat as EFmt};
use narsese::conversion::string::impl_lexical::{format_instances as lf, NarseseFormat as LFmt};
use narsese::conversion::string::typst_formatter as ty;
use serde_json::{json, Map, Value};

pub const FORMATS: [&str; 3] = ["ascii", "latex", "han"];

// ---- owned copies of the shipped formats (a quarter of the commands): a format need not be the `static` instance, and
// two different formats may live at the same address one after the other
thread_local! {
    static OWNED_E: std::cell::RefCell<Option<(String, Box<EFmt<&'static str>>)>> = const { std::cell::RefCell::new(None) };
    static OWNED_L: std::cell::RefCell<Option<(String, Box<LFmt>)>> = const { std::cell::RefCell::new(None) };
}
fn static_enum(name: &str) -> &'static EFmt<&'static str> {
    match name {
        "ascii" => &ef::FORMAT_ASCII,
        "latex" => &ef::FORMAT_LATEX,
        "han" => &ef::FORMAT_HAN,
        o => panic!("unknown format {o}"),
    }
}
fn fresh_lex(name: &str) -> LFmt {
    match name {
        "ascii" => lf::create_format_ascii(),
        "latex" => lf::create_format_latex(),
        "han" => lf::create_format_han(),
        o => panic!("unknown format {o}"),
    }
}
/// `Some(fmt)`: from now on (this thread, until the next call) `enum_format(fmt)` / `lex_format(fmt)` are freshly allocated
/// copies; just before, copies of ANOTHER format were allocated, used once and dropped (the allocator usually hands the
/// same block out again).  `None`: back to the static instances.
pub fn set_owned(fmt: Option<&str>) {
    use narsese::conversion::inter_type::lexical_fold::TryFoldInto;
    OWNED_E.with(|o| *o.borrow_mut() = None);
    OWNED_L.with(|o| *o.borrow_mut() = None);
    if let Some(name) = fmt {
        let other = match name { "ascii" => "han", "han" => "latex", _ => "ascii" };
        {
            let e = Box::new(static_enum(other).clone());
            let l = Box::new(fresh_lex(other));
            let text = static_enum(other).format_term(&narsese::enum_narsese::Term::new_inheritance(
                narsese::enum_narsese::Term::new_word("A"), narsese::enum_narsese::Term::new_word("B")));
            let _ = std::panic::catch_unwind(std::panic::AssertUnwindSafe(|| {
                let _ = e.parse::<narsese::enum_narsese::Narsese>(&text);
                if let Ok(v) = l.parse(&text) {
                    let _ = v.try_fold_into(&*e);
                }
            }));
        }
        OWNED_E.with(|o| *o.borrow_mut() = Some((name.to_string(), Box::new(static_enum(name).clone()))));
        OWNED_L.with(|o| *o.borrow_mut() = Some((name.to_string(), Box::new(fresh_lex(name)))));
    }
}
pub fn enum_format(name: &str) -> &'static EFmt<&'static str> {
    // the reference stays valid until the next `set_owned` on this thread; nothing in a command outlives the command
    let owned = OWNED_E.with(|o| o.borrow().as_ref().filter(|(n, _)| n == name).map(|(_, b)| &**b as *const EFmt<&'static str>));
    if let Some(p) = owned {
        return unsafe { &*p };
    }
    match name {
        "ascii" => &ef::FORMAT_ASCII,
        "latex" => &ef::FORMAT_LATEX,
        "han" => &ef::FORMAT_HAN,
        o => panic!("unknown format {o}"),
    }
}
pub fn lex_format(name: &str) -> &'static LFmt {
    let owned = OWNED_L.with(|o| o.borrow().as_ref().filter(|(n, _)| n == name).map(|(_, b)| &**b as *const LFmt));
    if let Some(p) = owned {
        return unsafe { &*p };
    }
    match name {
        "ascii" => &lf::FORMAT_ASCII,
        "latex" => &lf::FORMAT_LATEX,
        "han" => &lf::FORMAT_HAN,
        o => panic!("unknown format {o}"),
    }
}

fn kv(pairs: &[(&str, &str)]) -> Value {
    let mut m = Map::new();
    for (k, v) in pairs {
        m.insert((*k).to_string(), Value::String((*v).to_string()));
    }
    Value::Object(m)
}

fn dump_enum(f: &EFmt<&str>) -> Value {
    json!({
        "space": {"parse": f.space.parse, "format_terms": f.space.format_terms, "format_items": f.space.format_items},
        "prefix": kv(&[
            ("Word", f.atom.prefix_word), ("Placeholder", f.atom.prefix_placeholder),
            ("VariableIndependent", f.atom.prefix_variable_independent), ("VariableDependent", f.atom.prefix_variable_dependent),
            ("VariableQuery", f.atom.prefix_variable_query), ("Interval", f.atom.prefix_interval), ("Operator", f.atom.prefix_operator),
        ]),
        "comp_l": f.compound.brackets.0, "comp_r": f.compound.brackets.1, "sep": f.compound.separator,
        "se_l": f.compound.brackets_set_extension.0, "se_r": f.compound.brackets_set_extension.1,
        "si_l": f.compound.brackets_set_intension.0, "si_r": f.compound.brackets_set_intension.1,
        "conn": kv(&[
            ("IntersectionExtension", f.compound.connecter_intersection_extension), ("IntersectionIntension", f.compound.connecter_intersection_intension),
            ("DifferenceExtension", f.compound.connecter_difference_extension), ("DifferenceIntension", f.compound.connecter_difference_intension),
            ("Product", f.compound.connecter_product), ("ImageExtension", f.compound.connecter_image_extension),
            ("ImageIntension", f.compound.connecter_image_intension), ("Conjunction", f.compound.connecter_conjunction),
            ("Disjunction", f.compound.connecter_disjunction), ("Negation", f.compound.connecter_negation),
            ("ConjunctionSequential", f.compound.connecter_conjunction_sequential), ("ConjunctionParallel", f.compound.connecter_conjunction_parallel),
        ]),
        "st_l": f.statement.brackets.0, "st_r": f.statement.brackets.1,
        "cop": kv(&[
            ("Inheritance", f.statement.copula_inheritance), ("Similarity", f.statement.copula_similarity),
            ("Implication", f.statement.copula_implication), ("Equivalence", f.statement.copula_equivalence),
            ("Instance", f.statement.copula_instance), ("Property", f.statement.copula_property),
            ("InstanceProperty", f.statement.copula_instance_property),
            ("ImplicationPredictive", f.statement.copula_implication_predictive), ("ImplicationConcurrent", f.statement.copula_implication_concurrent),
            ("ImplicationRetrospective", f.statement.copula_implication_retrospective),
            ("EquivalencePredictive", f.statement.copula_equivalence_predictive), ("EquivalenceConcurrent", f.statement.copula_equivalence_concurrent),
            ("EquivalenceRetrospective", f.statement.copula_equivalence_retrospective),
        ]),
        // the order in which `copulas()` (used by the atom look-ahead) lists them
        "copulas_fn": f.copulas().to_vec(),
        "punct": kv(&[
            ("Judgement", f.sentence.punctuation_judgement), ("Goal", f.sentence.punctuation_goal),
            ("Question", f.sentence.punctuation_question), ("Quest", f.sentence.punctuation_quest),
        ]),
        "stamp_l": f.sentence.stamp_brackets.0, "stamp_r": f.sentence.stamp_brackets.1,
        "stamp": kv(&[
            ("Fixed", f.sentence.stamp_fixed), ("Past", f.sentence.stamp_past),
            ("Present", f.sentence.stamp_present), ("Future", f.sentence.stamp_future),
        ]),
        "truth_l": f.sentence.truth_brackets.0, "truth_r": f.sentence.truth_brackets.1, "truth_sep": f.sentence.truth_separator,
        "bud_l": f.task.budget_brackets.0, "bud_r": f.task.budget_brackets.1, "bud_sep": f.task.budget_separator,
    })
}

fn pairs(it: impl Iterator<Item = (String, String)>) -> Value {
    Value::Array(it.map(|(a, b)| json!([a, b])).collect())
}

fn dump_lex(f: &LFmt) -> Value {
    json!({
        "space": {"format_terms": f.space.format_terms, "format_items": f.space.format_items, "remove": f.space.remove_spaces_before_parse},
        // dictionaries in the order the parser tries them
        "prefixes": f.atom.prefixes.prefix_terms().cloned().collect::<Vec<String>>(),
        "set_brackets_prefix_order": pairs(PrefixMatch::prefix_terms(&f.compound.set_brackets).cloned()),
        "set_brackets_suffix_order": pairs(SuffixMatch::suffix_terms(&f.compound.set_brackets).cloned()),
        "comp_l": f.compound.brackets.0, "comp_r": f.compound.brackets.1, "sep": f.compound.separator,
        "connecters": f.compound.connecters.prefix_terms().cloned().collect::<Vec<String>>(),
        "st_l": f.statement.brackets.0, "st_r": f.statement.brackets.1,
        "copulas": PrefixMatch::prefix_terms(&f.statement.copulas).cloned().collect::<Vec<String>>(),
        "punctuations": f.sentence.punctuations.suffix_terms().cloned().collect::<Vec<String>>(),
        "truth_l": f.sentence.truth_brackets.0, "truth_r": f.sentence.truth_brackets.1, "truth_sep": f.sentence.truth_separator,
        "stamp_brackets_suffix_order": pairs(f.sentence.stamp_brackets.suffix_terms().cloned()),
        "bud_l": f.task.budget_brackets.0, "bud_r": f.task.budget_brackets.1, "bud_sep": f.task.budget_separator,
    })
}

/// every character that can occur in a keyword of any format, plus the working alphabet for names,
/// numbers, whitespace and a few characters no table mentions
pub fn alphabet() -> Vec<char> {
    let mut cs: Vec<char> = (0x20u8..0x7f).map(|b| b as char).collect();
    cs.extend(['词', '项', '名', '甲', '乙', 'é', 'Ω', '①', '٣', '²', '２', '½', 'Ⅷ']);
    // every character with the Unicode White_Space property (char::is_whitespace)
    cs.extend(['\t', '\n', '\u{b}', '\u{c}', '\r', '\u{85}', '\u{a0}', '\u{1680}', '\u{2000}', '\u{2001}', '\u{2002}', '\u{2003}', '\u{2004}',
               '\u{2005}', '\u{2006}', '\u{2007}', '\u{2008}', '\u{2009}', '\u{200a}', '\u{2028}', '\u{2029}', '\u{202f}', '\u{205f}', '\u{3000}']);
    let v = json!([FORMATS.iter().map(|n| dump_enum(enum_format(n))).collect::<Vec<_>>(), FORMATS.iter().map(|n| dump_lex(lex_format(n))).collect::<Vec<_>>()]);
    fn walk(v: &Value, out: &mut Vec<char>) {
        match v {
            Value::String(s) => out.extend(s.chars()),
            Value::Array(a) => a.iter().for_each(|x| walk(x, out)),
            Value::Object(o) => o.values().for_each(|x| walk(x, out)),
            _ => {}
        }
    }
    walk(&v, &mut cs);
    cs.sort();
    cs.dedup();
    cs
}

fn classes(name: &str) -> Value {
    let e = enum_format(name);
    let l = lex_format(name);
    let al = alphabet();
    let sel = |p: &dyn Fn(char) -> bool| -> Vec<String> { al.iter().filter(|c| p(**c)).map(|c| c.to_string()).collect() };
    // the two parsers must read the same name alphabet: every Unicode scalar value on which the enum and the lexical predicate differ
    let diff: Vec<String> = (0u32..=0x10ffff).filter_map(char::from_u32).filter(|c| (e.is_valid_atom_name)(*c) != (l.atom.is_identifier)(*c))
        .map(|c| format!("U+{:04X}", c as u32)).collect();
    json!({
        "name_class_diff_count": diff.len(),
        "name_class_diff": diff.into_iter().take(40).collect::<Vec<_>>(),
        "atom_name": sel(&|c| (e.is_valid_atom_name)(c)),
        "identifier": sel(&|c| (l.atom.is_identifier)(c)),
        "lex_space": sel(&|c| (l.space.is_for_parse)(c)),
        "stamp": sel(&|c| (l.sentence.is_stamp_content)(c)),
        "truth": sel(&|c| (l.sentence.is_truth_content)(c)),
        "budget": sel(&|c| (l.task.is_budget_content)(c)),
        "ascii_digit": sel(&|c| c.is_ascii_digit()),
        "unicode_ws": sel(&|c| c.is_whitespace()),
    })
}

fn typst() -> Value {
    let pair = |p: (&str, &str)| json!([p.0, p.1]);
    json!({
        "prefix": kv(&[
            ("Word", ty::TERM_PREFIX_WORD), ("Placeholder", ty::TERM_PREFIX_PLACEHOLDER), ("VariableIndependent", ty::TERM_PREFIX_I_VAR),
            ("VariableDependent", ty::TERM_PREFIX_D_VAR), ("VariableQuery", ty::TERM_PREFIX_Q_VAR), ("Interval", ty::TERM_PREFIX_INTERVAL),
            ("Operator", ty::TERM_PREFIX_OPERATOR),
        ]),
        "br_compound": pair(ty::BRACKETS_COMPOUND), "br_ext_set": pair(ty::BRACKETS_EXT_SET), "br_int_set": pair(ty::BRACKETS_INT_SET),
        "br_statement": pair(ty::BRACKETS_STATEMENT), "br_truth": pair(ty::BRACKETS_TRUTH), "br_budget": pair(ty::BRACKETS_BUDGET),
        "sep_compound": ty::SEPARATOR_COMPOUND, "sep_statement": ty::SEPARATOR_STATEMENT, "sep_item": ty::SEPARATOR_ITEM,
        "sep_truth": ty::SEPARATOR_TRUTH, "sep_budget": ty::SEPARATOR_BUDGET,
        "feature": kv(&[
            ("IntersectionExtension", ty::CONNECTER_EXT_INTERSECT), ("IntersectionIntension", ty::CONNECTER_INT_INTERSECT),
            ("DifferenceExtension", ty::CONNECTER_EXT_DIFFERENCE), ("DifferenceIntension", ty::CONNECTER_INT_DIFFERENCE),
            ("Product", ty::CONNECTER_PRODUCT), ("ImageExtension", ty::CONNECTER_EXT_IMAGE), ("ImageIntension", ty::CONNECTER_INT_IMAGE),
            ("Conjunction", ty::CONNECTER_CONJUNCTION), ("Disjunction", ty::CONNECTER_DISJUNCTION), ("Negation", ty::CONNECTER_NEGATION),
            ("ConjunctionSequential", ty::CONNECTER_SEQ_CONJUNCTION), ("ConjunctionParallel", ty::CONNECTER_PAR_CONJUNCTION),
            ("Inheritance", ty::COPULA_INHERITANCE), ("Similarity", ty::COPULA_SIMILARITY), ("Implication", ty::COPULA_IMPLICATION),
            ("Equivalence", ty::COPULA_EQUIVALENCE), ("ImplicationPredictive", ty::COPULA_IMPLICATION_PREDICTIVE),
            ("ImplicationConcurrent", ty::COPULA_IMPLICATION_CONCURRENT), ("ImplicationRetrospective", ty::COPULA_IMPLICATION_RETROSPECTIVE),
            ("EquivalencePredictive", ty::COPULA_EQUIVALENCE_PREDICTIVE), ("EquivalenceConcurrent", ty::COPULA_EQUIVALENCE_CONCURRENT),
        ]),
        "stamp": kv(&[("Eternal", ty::STAMP_ETERNAL), ("Past", ty::STAMP_PAST), ("Present", ty::STAMP_PRESENT), ("Future", ty::STAMP_FUTURE), ("Fixed", ty::STAMP_FIXED)]),
        "punct": kv(&[("Judgement", ty::PUNCTUATION_JUDGEMENT), ("Goal", ty::PUNCTUATION_GOAL), ("Question", ty::PUNCTUATION_QUESTION), ("Quest", ty::PUNCTUATION_QUEST)]),
    })
}

pub fn dump() -> Value {
    let mut en = Map::new();
    let mut lx = Map::new();
    let mut cl = Map::new();
    for n in FORMATS {
        en.insert(n.to_string(), dump_enum(enum_format(n)));
        lx.insert(n.to_string(), dump_lex(lex_format(n)));
        cl.insert(n.to_string(), classes(n));
    }
    json!({
        "word_bits": usize::BITS,
        "usize_max": usize::MAX.to_string(),
        "isize_max": isize::MAX.to_string(),
        "isize_min": isize::MIN.to_string(),
        "alphabet": alphabet().iter().map(|c| c.to_string()).collect::<Vec<_>>(),
        "enum": en, "lex": lx, "classes": cl, "typst": typst(),
    })
}
