//! Projection between the library's values and JSON (one projection, both directions).
//!
//! No oracle lives here: values are built from JSON descriptions ("recipes") and results
//! are written out as JSON; all comparisons are done by TLC on the projected form.
use narsese::api::{GetCapacity, GetCategory, TermCapacity, TermCategory};
use narsese::enum_narsese as en;
use narsese::lexical as lx;
use serde_json::{json, Value};

pub fn f2s(f: f64) -> String {
    f.to_string()
}

fn s2f(v: &Value) -> Result<f64, String> {
    match v {
        Value::String(s) => s.parse::<f64>().map_err(|e| format!("bad float {s:?}: {e}")),
        // raw bits as {"bits":"0x..."} allow any f64
        Value::Object(o) => {
            let b = o.get("bits").and_then(|b| b.as_str()).ok_or("bits missing")?;
            let b = u64::from_str_radix(b.trim_start_matches("0x"), 16).map_err(|e| e.to_string())?;
            Ok(f64::from_bits(b))
        }
        _ => Err(format!("bad float {v}")),
    }
}

pub fn floats_of(v: &Value) -> Result<Vec<f64>, String> {
    v.as_array().ok_or("float list expected")?.iter().map(s2f).collect()
}

fn str_of<'a>(v: &'a Value, key: &str) -> Result<&'a str, String> {
    v.get(key).and_then(|x| x.as_str()).ok_or_else(|| format!("field {key} missing in {v}"))
}

fn arr_of<'a>(v: &'a Value, key: &str) -> Result<&'a Vec<Value>, String> {
    v.get(key).and_then(|x| x.as_array()).ok_or_else(|| format!("array {key} missing in {v}"))
}

// ---------------------------------------------------------------- enum terms

/// Build an enum term from its JSON recipe. Set components are inserted in the order given
/// (duplicates allowed), symmetric operands are stored in the order given.
/// May panic inside the library's constructors (e.g. image index out of range): callers wrap it.
pub fn term_of(v: &Value) -> Result<en::Term, String> {
    use en::Term as T;
    let k = str_of(v, "k")?;
    let many = |key: &str| -> Result<Vec<en::Term>, String> { arr_of(v, key)?.iter().map(term_of).collect() };
    let one = |key: &str| -> Result<en::Term, String> { term_of(v.get(key).ok_or_else(|| format!("{key} missing"))?) };
    Ok(match k {
        "Word" => T::new_word(str_of(v, "n")?),
        "Placeholder" => T::new_placeholder(),
        "VariableIndependent" => T::new_variable_independent(str_of(v, "n")?),
        "VariableDependent" => T::new_variable_dependent(str_of(v, "n")?),
        "VariableQuery" => T::new_variable_query(str_of(v, "n")?),
        "Interval" => T::new_interval(str_of(v, "n")?.parse::<usize>().map_err(|e| e.to_string())?),
        "Operator" => T::new_operator(str_of(v, "n")?),
        "SetExtension" => T::new_set_extension(many("s")?),
        "SetIntension" => T::new_set_intension(many("s")?),
        "IntersectionExtension" => T::new_intersection_extension(many("s")?),
        "IntersectionIntension" => T::new_intersection_intension(many("s")?),
        "Conjunction" => T::new_conjunction(many("s")?),
        "Disjunction" => T::new_disjunction(many("s")?),
        "ConjunctionParallel" => T::new_conjunction_parallel(many("s")?),
        "DifferenceExtension" => T::new_difference_extension(one("a")?, one("b")?),
        "DifferenceIntension" => T::new_difference_intension(one("a")?, one("b")?),
        "Negation" => T::new_negation(one("a")?),
        "Product" => T::new_product(many("q")?),
        "ConjunctionSequential" => T::new_conjunction_sequential(many("q")?),
        "ImageExtension" => T::new_image_extension(idx_of(v)?, many("q")?),
        "ImageIntension" => T::new_image_intension(idx_of(v)?, many("q")?),
        "Inheritance" => T::new_inheritance(one("a")?, one("b")?),
        "Similarity" => T::new_similarity(one("a")?, one("b")?),
        "Implication" => T::new_implication(one("a")?, one("b")?),
        "Equivalence" => T::new_equivalence(one("a")?, one("b")?),
        "ImplicationPredictive" => T::new_implication_predictive(one("a")?, one("b")?),
        "ImplicationConcurrent" => T::new_implication_concurrent(one("a")?, one("b")?),
        "ImplicationRetrospective" => T::new_implication_retrospective(one("a")?, one("b")?),
        "EquivalencePredictive" => T::new_equivalence_predictive(one("a")?, one("b")?),
        "EquivalenceConcurrent" => T::new_equivalence_concurrent(one("a")?, one("b")?),
        // derived constructors (C10)
        "Instance" => T::new_instance(one("a")?, one("b")?),
        "Property" => T::new_property(one("a")?, one("b")?),
        "InstanceProperty" => T::new_instance_property(one("a")?, one("b")?),
        "EquivalenceRetrospective" => T::new_equivalence_retrospective(one("a")?, one("b")?),
        other => return Err(format!("unknown term kind {other}")),
    })
}

fn idx_of(v: &Value) -> Result<usize, String> {
    v.get("i").and_then(|i| i.as_u64()).map(|i| i as usize).ok_or_else(|| format!("image index missing in {v}"))
}

/// Project an enum term. Unordered containers are written in their *iteration order*.
pub fn term_to(t: &en::Term) -> Value {
    use en::Term::*;
    let many = |ts: &mut dyn Iterator<Item = &en::Term>| -> Value { Value::Array(ts.map(term_to).collect()) };
    match t {
        Word(n) => json!({"k":"Word","n":n}),
        Placeholder => json!({"k":"Placeholder"}),
        VariableIndependent(n) => json!({"k":"VariableIndependent","n":n}),
        VariableDependent(n) => json!({"k":"VariableDependent","n":n}),
        VariableQuery(n) => json!({"k":"VariableQuery","n":n}),
        Interval(i) => json!({"k":"Interval","n":i.to_string()}),
        Operator(n) => json!({"k":"Operator","n":n}),
        SetExtension(s) => json!({"k":"SetExtension","s":many(&mut s.iter())}),
        SetIntension(s) => json!({"k":"SetIntension","s":many(&mut s.iter())}),
        IntersectionExtension(s) => json!({"k":"IntersectionExtension","s":many(&mut s.iter())}),
        IntersectionIntension(s) => json!({"k":"IntersectionIntension","s":many(&mut s.iter())}),
        Conjunction(s) => json!({"k":"Conjunction","s":many(&mut s.iter())}),
        Disjunction(s) => json!({"k":"Disjunction","s":many(&mut s.iter())}),
        ConjunctionParallel(s) => json!({"k":"ConjunctionParallel","s":many(&mut s.iter())}),
        DifferenceExtension(a, b) => json!({"k":"DifferenceExtension","a":term_to(a),"b":term_to(b)}),
        DifferenceIntension(a, b) => json!({"k":"DifferenceIntension","a":term_to(a),"b":term_to(b)}),
        Negation(a) => json!({"k":"Negation","a":term_to(a)}),
        Product(q) => json!({"k":"Product","q":many(&mut q.iter())}),
        ConjunctionSequential(q) => json!({"k":"ConjunctionSequential","q":many(&mut q.iter())}),
        ImageExtension(i, q) => json!({"k":"ImageExtension","i":i,"q":many(&mut q.iter())}),
        ImageIntension(i, q) => json!({"k":"ImageIntension","i":i,"q":many(&mut q.iter())}),
        Inheritance(a, b) => json!({"k":"Inheritance","a":term_to(a),"b":term_to(b)}),
        Similarity(a, b) => json!({"k":"Similarity","a":term_to(a),"b":term_to(b)}),
        Implication(a, b) => json!({"k":"Implication","a":term_to(a),"b":term_to(b)}),
        Equivalence(a, b) => json!({"k":"Equivalence","a":term_to(a),"b":term_to(b)}),
        ImplicationPredictive(a, b) => json!({"k":"ImplicationPredictive","a":term_to(a),"b":term_to(b)}),
        ImplicationConcurrent(a, b) => json!({"k":"ImplicationConcurrent","a":term_to(a),"b":term_to(b)}),
        ImplicationRetrospective(a, b) => json!({"k":"ImplicationRetrospective","a":term_to(a),"b":term_to(b)}),
        EquivalencePredictive(a, b) => json!({"k":"EquivalencePredictive","a":term_to(a),"b":term_to(b)}),
        EquivalenceConcurrent(a, b) => json!({"k":"EquivalenceConcurrent","a":term_to(a),"b":term_to(b)}),
    }
}

pub fn punct_of(s: &str) -> Result<en::Punctuation, String> {
    Ok(match s {
        "Judgement" => en::Punctuation::Judgement,
        "Goal" => en::Punctuation::Goal,
        "Question" => en::Punctuation::Question,
        "Quest" => en::Punctuation::Quest,
        o => return Err(format!("unknown punctuation {o}")),
    })
}
pub fn punct_to(p: &en::Punctuation) -> &'static str {
    match p {
        en::Punctuation::Judgement => "Judgement",
        en::Punctuation::Goal => "Goal",
        en::Punctuation::Question => "Question",
        en::Punctuation::Quest => "Quest",
    }
}
pub fn stamp_of(v: &Value) -> Result<en::Stamp, String> {
    Ok(match str_of(v, "k")? {
        "Eternal" => en::Stamp::Eternal,
        "Past" => en::Stamp::Past,
        "Present" => en::Stamp::Present,
        "Future" => en::Stamp::Future,
        "Fixed" => en::Stamp::Fixed(str_of(v, "n")?.parse::<isize>().map_err(|e| e.to_string())?),
        o => return Err(format!("unknown stamp {o}")),
    })
}
pub fn stamp_to(s: &en::Stamp) -> Value {
    match s {
        en::Stamp::Eternal => json!({"k":"Eternal"}),
        en::Stamp::Past => json!({"k":"Past"}),
        en::Stamp::Present => json!({"k":"Present"}),
        en::Stamp::Future => json!({"k":"Future"}),
        en::Stamp::Fixed(t) => json!({"k":"Fixed","n":t.to_string()}),
    }
}
/// Truth from a float list using the *unchecked enum variants* (so that the harness can also build
/// values the checked constructors would refuse; well-formed universes never need that).
pub fn truth_of(v: &Value) -> Result<en::Truth, String> {
    let f = floats_of(v)?;
    Ok(match f.len() {
        0 => en::Truth::Empty,
        1 => en::Truth::Single(f[0]),
        2 => en::Truth::Double(f[0], f[1]),
        n => return Err(format!("truth arity {n}")),
    })
}
pub fn truth_to(t: &en::Truth) -> Value {
    match t {
        en::Truth::Empty => json!([]),
        en::Truth::Single(f) => json!([f2s(*f)]),
        en::Truth::Double(f, c) => json!([f2s(*f), f2s(*c)]),
    }
}
pub fn budget_of(v: &Value) -> Result<en::Budget, String> {
    let f = floats_of(v)?;
    Ok(match f.len() {
        0 => en::Budget::Empty,
        1 => en::Budget::Single(f[0]),
        2 => en::Budget::Double(f[0], f[1]),
        3 => en::Budget::Triple(f[0], f[1], f[2]),
        n => return Err(format!("budget arity {n}")),
    })
}
pub fn budget_to(b: &en::Budget) -> Value {
    match b {
        en::Budget::Empty => json!([]),
        en::Budget::Single(p) => json!([f2s(*p)]),
        en::Budget::Double(p, d) => json!([f2s(*p), f2s(*d)]),
        en::Budget::Triple(p, d, q) => json!([f2s(*p), f2s(*d), f2s(*q)]),
    }
}
pub fn sentence_of(v: &Value) -> Result<en::Sentence, String> {
    let term = term_of(v.get("t").ok_or("sentence term missing")?)?;
    let p = punct_of(str_of(v, "p")?)?;
    let st = stamp_of(v.get("st").ok_or("stamp missing")?)?;
    let tr = truth_of(v.get("tr").ok_or("truth missing")?)?;
    Ok(en::Sentence::from_punctuation(term, p, st, tr))
}
pub fn sentence_to(s: &en::Sentence) -> Value {
    use narsese::api::{GetPunctuation, GetStamp, GetTerm, GetTruth};
    json!({
        "t": term_to(s.get_term()),
        "p": punct_to(s.get_punctuation()),
        "st": stamp_to(s.get_stamp()),
        "tr": s.get_truth().map(truth_to).unwrap_or(json!([])),
    })
}
pub fn task_of(v: &Value) -> Result<en::Task, String> {
    Ok(en::Task::new(sentence_of(v.get("s").ok_or("task sentence missing")?)?, budget_of(v.get("b").ok_or("budget missing")?)?))
}
pub fn task_to(t: &en::Task) -> Value {
    use narsese::api::GetBudget;
    json!({"b": budget_to(t.get_budget()), "s": sentence_to(t.get_sentence())})
}
pub fn narsese_of(v: &Value) -> Result<en::Narsese, String> {
    let inner = v.get("v").ok_or("narsese v missing")?;
    Ok(match str_of(v, "kind")? {
        "term" => en::Narsese::Term(term_of(inner)?),
        "sentence" => en::Narsese::Sentence(sentence_of(inner)?),
        "task" => en::Narsese::Task(task_of(inner)?),
        o => return Err(format!("unknown kind {o}")),
    })
}
pub fn narsese_to(n: &en::Narsese) -> Value {
    match n {
        en::Narsese::Term(t) => json!({"kind":"term","v":term_to(t)}),
        en::Narsese::Sentence(s) => json!({"kind":"sentence","v":sentence_to(s)}),
        en::Narsese::Task(t) => json!({"kind":"task","v":task_to(t)}),
    }
}

pub fn category_to(c: TermCategory) -> &'static str {
    match c {
        TermCategory::Atom => "Atom",
        TermCategory::Compound => "Compound",
        TermCategory::Statement => "Statement",
    }
}
pub fn capacity_to(c: TermCapacity) -> &'static str {
    match c {
        TermCapacity::Atom => "Atom",
        TermCapacity::Unary => "Unary",
        TermCapacity::BinaryVec => "BinaryVec",
        TermCapacity::BinarySet => "BinarySet",
        TermCapacity::Vec => "Vec",
        TermCapacity::Set => "Set",
    }
}
/// all category / capacity predicates of a term, as observed
pub fn predicates<T: GetCategory + GetCapacity>(t: &T) -> Value {
    json!({
        "category": category_to(t.get_category()),
        "is_atom": t.is_atom(), "is_compound": t.is_compound(), "is_statement": t.is_statement(),
        "capacity": capacity_to(t.get_capacity()),
        "base_num": t.get_capacity().base_num(),
        "cap_atom": t.is_capacity_atom(), "cap_unary": t.is_capacity_unary(), "cap_binary": t.is_capacity_binary(),
        "cap_binary_vec": t.is_capacity_binary_vec(), "cap_binary_set": t.is_capacity_binary_set(),
        "cap_multi": t.is_capacity_multi(), "cap_vec": t.is_capacity_vec(), "cap_set": t.is_capacity_set(),
    })
}

// ---------------------------------------------------------------- lexical values

pub fn lterm_of(v: &Value) -> Result<lx::Term, String> {
    Ok(match str_of(v, "k")? {
        "Atom" => lx::Term::new_atom(str_of(v, "prefix")?, str_of(v, "name")?),
        "Compound" => lx::Term::new_compound(str_of(v, "connecter")?, arr_of(v, "terms")?.iter().map(lterm_of).collect::<Result<_, _>>()?),
        "Set" => lx::Term::new_set(str_of(v, "left")?, arr_of(v, "terms")?.iter().map(lterm_of).collect::<Result<_, _>>()?, str_of(v, "right")?),
        "Statement" => lx::Term::new_statement(
            str_of(v, "copula")?,
            lterm_of(v.get("subject").ok_or("subject missing")?)?,
            lterm_of(v.get("predicate").ok_or("predicate missing")?)?,
        ),
        o => return Err(format!("unknown lexical term kind {o}")),
    })
}
pub fn lterm_to(t: &lx::Term) -> Value {
    match t {
        lx::Term::Atom { prefix, name } => json!({"k":"Atom","prefix":prefix,"name":name}),
        lx::Term::Compound { connecter, terms } => json!({"k":"Compound","connecter":connecter,"terms":terms.iter().map(lterm_to).collect::<Vec<_>>()}),
        lx::Term::Set { left_bracket, terms, right_bracket } => {
            json!({"k":"Set","left":left_bracket,"right":right_bracket,"terms":terms.iter().map(lterm_to).collect::<Vec<_>>()})
        }
        lx::Term::Statement { copula, subject, predicate } => json!({"k":"Statement","copula":copula,"subject":lterm_to(subject),"predicate":lterm_to(predicate)}),
    }
}
fn strs_of(v: &Value, key: &str) -> Result<Vec<String>, String> {
    arr_of(v, key)?.iter().map(|x| x.as_str().map(str::to_owned).ok_or_else(|| "string expected".to_string())).collect()
}
pub fn lsentence_of(v: &Value) -> Result<lx::Sentence, String> {
    Ok(lx::Sentence::new(
        lterm_of(v.get("term").ok_or("term missing")?)?,
        str_of(v, "punctuation")?,
        str_of(v, "stamp")?,
        strs_of(v, "truth")?,
    ))
}
pub fn lsentence_to(s: &lx::Sentence) -> Value {
    json!({"term":lterm_to(&s.term),"punctuation":s.punctuation,"stamp":s.stamp,"truth":s.truth})
}
pub fn ltask_of(v: &Value) -> Result<lx::Task, String> {
    Ok(lx::Task { budget: strs_of(v, "budget")?, sentence: lsentence_of(v.get("sentence").ok_or("sentence missing")?)? })
}
pub fn ltask_to(t: &lx::Task) -> Value {
    json!({"budget":t.budget,"sentence":lsentence_to(&t.sentence)})
}
pub fn lnarsese_of(v: &Value) -> Result<lx::Narsese, String> {
    let inner = v.get("v").ok_or("narsese v missing")?;
    Ok(match str_of(v, "kind")? {
        "term" => lx::Narsese::Term(lterm_of(inner)?),
        "sentence" => lx::Narsese::Sentence(lsentence_of(inner)?),
        "task" => lx::Narsese::Task(ltask_of(inner)?),
        o => return Err(format!("unknown kind {o}")),
    })
}
pub fn lnarsese_to(n: &lx::Narsese) -> Value {
    match n {
        lx::Narsese::Term(t) => json!({"kind":"term","v":lterm_to(t)}),
        lx::Narsese::Sentence(s) => json!({"kind":"sentence","v":lsentence_to(s)}),
        lx::Narsese::Task(t) => json!({"kind":"task","v":ltask_to(t)}),
    }
}
