//! `nv exec`: run commands (one JSON object per line) against the real library and write one
//! observation per command. The harness has no opinion about the outcome; it records it.
use crate::proj::*;
use crate::vocab::{enum_format, lex_format, FORMATS};
use narsese::api::{CastToTask, ExtractTerms, FormatTo, GetCategory, TryCastToSentence};
use narsese::conversion::inter_type::lexical_fold::TryFoldInto;
use narsese::conversion::string::typst_formatter::FormatterTypst;
use narsese::enum_narsese as en;
use narsese::lexical as lx;
use serde_json::{json, Value};
use std::collections::hash_map::{DefaultHasher, RandomState};
use std::collections::HashSet;
use std::hash::{BuildHasher, Hash, Hasher};
use std::panic::{catch_unwind, AssertUnwindSafe};

thread_local! {
    static LAST_PANIC: std::cell::RefCell<String> = std::cell::RefCell::new(String::new());
}

pub fn install_panic_hook() {
    std::panic::set_hook(Box::new(|info| {
        let msg = if let Some(s) = info.payload().downcast_ref::<&str>() {
            (*s).to_string()
        } else if let Some(s) = info.payload().downcast_ref::<String>() {
            s.clone()
        } else {
            "<non-string panic>".to_string()
        };
        let loc = info.location().map(|l| format!("{}:{}", l.file(), l.line())).unwrap_or_default();
        LAST_PANIC.with(|p| *p.borrow_mut() = format!("{msg} @ {loc}"));
    }));
}

/// run `f`, turning a panic into data
fn guarded<T>(f: impl FnOnce() -> T) -> Result<T, String> {
    catch_unwind(AssertUnwindSafe(f)).map_err(|_| LAST_PANIC.with(|p| p.borrow().clone()))
}

fn res<T, E: std::fmt::Display>(r: Result<Result<T, E>, String>, proj: impl Fn(&T) -> Value) -> Value {
    match r {
        Ok(Ok(v)) => match guarded(|| proj(&v)) {
            Ok(j) => json!({"r":"ok","v":j}),
            Err(p) => json!({"r":"panic","msg":format!("while projecting: {p}")}),
        },
        Ok(Err(e)) => match guarded(|| e.to_string()) {
            Ok(m) => json!({"r":"err","msg":m}),
            Err(p) => json!({"r":"panic","msg":format!("while displaying the error: {p}")}),
        },
        Err(p) => json!({"r":"panic","msg":p}),
    }
}

/// options are written as records with a tag (TLC cannot compare a string with a record, and JSON null has no TLA+ value)
fn opt_s(o: Option<String>) -> Value {
    match o {
        Some(v) => json!({"some":true,"v":v}),
        None => json!({"some":false}),
    }
}

fn s_of<'a>(c: &'a Value, k: &str) -> &'a str {
    c.get(k).and_then(|x| x.as_str()).unwrap_or_else(|| panic!("command field {k} missing: {c}"))
}

/// text fields may be given as a string or as an array of strings (tokens / characters) to be joined
fn text_of(c: &Value, k: &str) -> String {
    match c.get(k) {
        Some(Value::String(s)) => s.clone(),
        Some(Value::Array(a)) => a.iter().map(|x| x.as_str().expect("token")).collect::<String>(),
        _ => panic!("text field {k} missing: {c}"),
    }
}

/// the text of a value through the entry point of its own kind (format_term / format_sentence / format_task)
fn enum_text_by_kind(fmt: &str, v: &en::Narsese) -> String {
    let f = enum_format(fmt);
    match v {
        en::Narsese::Term(t) => f.format_term(t),
        en::Narsese::Sentence(x) => f.format_sentence(x),
        en::Narsese::Task(x) => f.format_task(x),
    }
}
fn lex_text_by_kind(fmt: &str, v: &lx::Narsese) -> String {
    let f = lex_format(fmt);
    match v {
        lx::Narsese::Term(t) => f.format_term(t),
        lx::Narsese::Sentence(x) => f.format_sentence(x),
        lx::Narsese::Task(x) => f.format_task(x),
    }
}

fn enum_parse(fmt: &str, s: &str) -> Value {
    let f = enum_format(fmt);
    res(guarded(|| f.parse::<en::Narsese>(s)), narsese_to)
}
fn lex_parse(fmt: &str, s: &str) -> (Value, Option<lx::Narsese>) {
    let f = lex_format(fmt);
    let r = guarded(|| f.parse(s));
    let keep = match &r {
        Ok(Ok(v)) => Some(v.clone()),
        _ => None,
    };
    (res(r, lnarsese_to), keep)
}
fn fold(fmt: &str, v: lx::Narsese) -> Value {
    let f = enum_format(fmt);
    res(guarded(|| v.try_fold_into(f).map_err(|e| format!("{e:?}"))), narsese_to)
}

/// format an enum value in all three formats and in Typst; report panics only
fn formattable(v: &en::Narsese) -> Value {
    let mut bad = vec![];
    for n in FORMATS {
        if let Err(p) = guarded(|| enum_format(n).format_narsese(v)) {
            bad.push(format!("{n}: {p}"));
        }
    }
    let t = guarded(|| typst_of(v));
    if let Err(p) = &t {
        bad.push(format!("typst: {p}"));
    }
    json!({"ok": bad.is_empty(), "bad": bad})
}

fn typst_of(v: &en::Narsese) -> String {
    match v {
        en::Narsese::Term(t) => FormatterTypst.format(t),
        en::Narsese::Sentence(s) => FormatterTypst.format(s),
        en::Narsese::Task(t) => FormatterTypst.format(t),
    }
}

fn hash_default<T: Hash>(t: &T) -> u64 {
    let mut h = DefaultHasher::new();
    t.hash(&mut h);
    h.finish()
}

/// a hasher that records what is written to it
#[derive(Default)]
struct Recorder(Vec<u8>);
impl Hasher for Recorder {
    fn finish(&self) -> u64 {
        0
    }
    fn write(&mut self, bytes: &[u8]) {
        self.0.extend_from_slice(bytes);
        self.0.push(0xfe);
    }
}

pub fn run(c: &Value) -> Value {
    let op = s_of(c, "op");
    match op {
        // ------------------------------------------------------------ C01 / C15
        "rt_enum" => {
            let fmt = s_of(c, "fmt");
            let f = enum_format(fmt);
            let v = match guarded(|| narsese_of(&c["v"])) {
                Ok(Ok(v)) => v,
                Ok(Err(e)) => return json!({"build":"err","msg":e}),
                Err(p) => return json!({"build":"panic","msg":p}),
            };
            let s = match guarded(|| f.format_narsese(&v)) {
                Ok(s) => s,
                Err(p) => return json!({"build":"ok","format":"panic","msg":p}),
            };
            let s_entry = guarded(|| match &v {
                en::Narsese::Term(t) => f.format_term(t),
                en::Narsese::Sentence(x) => f.format_sentence(x),
                en::Narsese::Task(x) => f.format_task(x),
            });
            let s_trait = guarded(|| match &v {
                en::Narsese::Term(t) => f.format(t),
                en::Narsese::Sentence(x) => f.format(x),
                en::Narsese::Task(x) => f.format(x),
            });
            let s_value = guarded(|| FormatTo::<_, String>::format_to(&v, f));
            let entries_agree = [s_entry, s_trait, s_value].iter().all(|x| x.as_deref() == Ok(s.as_str()));
            json!({"build":"ok","format":"ok","s":s,"entries_agree":entries_agree,"r":enum_parse(fmt,&s),"back":narsese_to(&v)})
        }
        // ------------------------------------------------------------ X02: translation between formats, idempotence of format . parse . format
        "translate" => {
            let (from, to) = (s_of(c, "from"), s_of(c, "to"));
            let v = match guarded(|| narsese_of(&c["v"])) {
                Ok(Ok(v)) => v,
                e => return json!({"build":"fail","msg":format!("{e:?}")}),
            };
            let step = |fmt: &str, v: &en::Narsese| -> (Value, Option<(String, en::Narsese)>) {
                let f = enum_format(fmt);
                let s = match guarded(|| f.format_narsese(v)) { Ok(s) => s, Err(p) => return (json!({"r":"panic","msg":p}), None) };
                match guarded(|| f.parse::<en::Narsese>(&s)) {
                    Ok(Ok(p)) => (json!({"r":"ok","v":narsese_to(&p)}), Some((s, p))),
                    Ok(Err(e)) => (json!({"r":"err","msg":format!("{e}"),"s":s}), None),
                    Err(p) => (json!({"r":"panic","msg":p,"s":s}), None),
                }
            };
            let mut o = json!({"build":"ok"});
            let (r1, k1) = step(from, &v);
            o["p1"] = r1;
            if let Some((s1, p1)) = k1 {
                // idempotence: format(parse(format(v))) denotes the same text up to the order of unordered components
                let s1b = guarded(|| enum_format(from).format_narsese(&p1));
                o["refmt_len_same"] = json!(s1b.as_ref().map(|x| x.chars().count() == s1.chars().count()).unwrap_or(false));
                let sort = |x: &str| { let mut c: Vec<char> = x.chars().collect(); c.sort_unstable(); c };
                o["refmt_bag_same"] = json!(s1b.as_ref().map(|x| sort(x) == sort(&s1)).unwrap_or(false));
                let (r2, k2) = step(to, &p1);
                o["p2"] = r2;
                if let Some((_, p2)) = k2 {
                    let (r3, _) = step(from, &p2);
                    o["p3"] = r3;
                    o["eq12"] = json!(p1 == p2);
                }
            }
            o
        }
        // ------------------------------------------------------------ C02
        "rt_lex" => {
            let fmt = s_of(c, "fmt");
            let f = lex_format(fmt);
            let v = match lnarsese_of(&c["v"]) {
                Ok(v) => v,
                Err(e) => return json!({"build":"err","msg":e}),
            };
            let s = match guarded(|| f.format_narsese(&v)) {
                Ok(s) => s,
                Err(p) => return json!({"format":"panic","msg":p}),
            };
            let (r, _) = lex_parse(fmt, &s);
            let same = guarded(|| lex_text_by_kind(fmt, &v)).map(|t| t == s).unwrap_or(false);
            json!({"format":"ok","s":s,"r":r,"entries_agree":same})
        }
        // ------------------------------------------------------------ C03 / C09 / C10
        "pipe" | "pipe_v" | "pipe_l" => {
            let fmt = s_of(c, "fmt");
            // pipe: the text is given; pipe_v: the text is what the real enum formatter writes for the value;
            // pipe_l: the text is what the real LEXICAL formatter writes for the lexical value
            let s = if op == "pipe" { text_of(c, "s") } else if op == "pipe_l" {
                match guarded(|| lnarsese_of(&c["v"]).map(|v| lex_format(fmt).format_narsese(&v))) {
                    Ok(Ok(s)) => s,
                    e => return json!({"build":"fail","msg":format!("{e:?}")}),
                }
            } else {
                match guarded(|| narsese_of(&c["v"]).map(|v| enum_format(fmt).format_narsese(&v))) {
                    Ok(Ok(s)) => s,
                    e => return json!({"build":"fail","msg":format!("{e:?}")}),
                }
            };
            let e = enum_parse(fmt, &s);
            let (l, keep) = lex_parse(fmt, &s);
            let f = match keep {
                Some(v) => fold(fmt, v),
                None => json!({"r":"skip"}),
            };
            let mut o = json!({"s":s,"e":e,"l":l,"f":f});
            if c.get("macros").and_then(|m| m.as_bool()).unwrap_or(false) && fmt == "ascii" {
                // the inline macros, invoked through their own @PARSE rule on a run-time string
                let me = guarded(|| narsese::enum_nse!(@PARSE s.as_str()));
                let ml = guarded(|| narsese::lexical_nse!(@PARSE s.as_str()));
                o["me"] = match me {
                    Ok(v) => json!({"r":"ok","v":narsese_to(&v)}),
                    Err(p) => json!({"r":"panic","msg":p}),
                };
                o["ml"] = match ml {
                    Ok(v) => json!({"r":"ok","v":lnarsese_to(&v)}),
                    Err(p) => json!({"r":"panic","msg":p}),
                };
            }
            o
        }
        // ------------------------------------------------------------ C04 / C05 / C12
        "parse_any" => {
            let fmt = s_of(c, "fmt");
            let s = text_of(c, "s");
            let f = enum_format(fmt);
            let mut o = json!({"s":s});
            fn wf<E>(r: &Result<Result<en::Narsese, E>, String>) -> Value {
                match r {
                    Ok(Ok(v)) => formattable(v),
                    _ => json!({"na":true}),
                }
            }
            let r1 = guarded(|| f.parse::<en::Narsese>(&s));
            o["fmtable"] = wf(&r1);
            o["narsese"] = res(r1, narsese_to);
            o["chars"] = res(guarded(|| f.parse_chars::<en::Narsese>(s.chars().collect())), narsese_to);
            o["multi1"] = match guarded(|| f.parse_multi([s.as_str()])) {
                Ok(mut v) if v.len() == 1 => res(Ok(v.remove(0)), narsese_to),
                Ok(v) => json!({"r":"err","msg":format!("parse_multi returned {} results", v.len())}),
                Err(p) => json!({"r":"panic","msg":p}),
            };
            o["truth"] = res(guarded(|| f.parse::<en::Truth>(&s)), truth_to);
            o["budget"] = res(guarded(|| f.parse::<en::Budget>(&s)), budget_to);
            o["stamp"] = res(guarded(|| f.parse::<en::Stamp>(&s)), stamp_to);
            o["punct"] = res(guarded(|| f.parse::<en::Punctuation>(&s)), |p| json!(punct_to(p)));
            let (l, keep) = lex_parse(fmt, &s);
            o["lex"] = l;
            o["lex_term"] = res(guarded(|| lex_format(fmt).parse_term(&s)), lterm_to);
            o["fold"] = match keep {
                Some(v) => {
                    let r = guarded(|| v.try_fold_into(f).map_err(|e| format!("{e:?}")));
                    o["fold_fmtable"] = wf(&r);
                    res(r, narsese_to)
                }
                None => json!({"r":"skip"}),
            };
            o
        }
        "fold_any" => {
            let fmt = s_of(c, "fmt");
            let v = match lnarsese_of(&c["v"]) {
                Ok(v) => v,
                Err(e) => return json!({"build":"err","msg":e}),
            };
            let f = enum_format(fmt);
            let r = guarded(|| v.clone().try_fold_into(f).map_err(|e| format!("{e:?}")));
            let fm = match &r {
                Ok(Ok(x)) => formattable(x),
                _ => json!({"na":true}),
            };
            // lexical formatting of arbitrary values must not panic either
            let lf = guarded(|| lex_format(fmt).format_narsese(&v)).is_ok();
            json!({"fold":res(r, narsese_to),"fmtable":fm,"lex_format_ok":lf})
        }
        // ------------------------------------------------------------ C08
        "multi" => {
            let fmt = s_of(c, "fmt");
            let f = enum_format(fmt);
            let inputs: Vec<String> = c["inputs"].as_array().expect("inputs").iter().map(|x| match x {
                Value::String(s) => s.clone(),
                Value::Array(a) => a.iter().map(|t| t.as_str().unwrap()).collect(),
                _ => panic!("bad input"),
            }).collect();
            let (multi, multi_panic) = match guarded(|| f.parse_multi(inputs.iter().map(|s| s.as_str()))) {
                Ok(v) => (Value::Array(v.into_iter().map(|r| res(Ok(r), narsese_to)).collect()), false),
                Err(_) => (json!([]), true),
            };
            // the reference parse of each input runs on a FRESH thread: nothing parsed earlier (thread-local or otherwise tied to
            // this worker thread) can have touched it
            let fresh = |s: &String, lexical: bool| -> Value {
                std::thread::scope(|sc| {
                    std::thread::Builder::new().stack_size(256 << 20).spawn_scoped(sc, || if lexical { lex_parse(fmt, s).0 } else { enum_parse(fmt, s) })
                        .expect("spawn").join().unwrap_or_else(|_| json!({"r":"panic","msg":"fresh thread died"}))
                })
            };
            let alone: Vec<Value> = inputs.iter().map(|s| fresh(s, false)).collect();
            let twice: Vec<Value> = inputs.iter().map(|s| enum_parse(fmt, s)).collect();
            let chars: Vec<Value> = inputs.iter().map(|s| res(guarded(|| f.parse_chars::<en::Narsese>(s.chars().collect())), narsese_to)).collect();
            // lexical parser used repeatedly in the given order, then each alone again (statics are shared)
            let lex_seq: Vec<Value> = inputs.iter().map(|s| lex_parse(fmt, s).0).collect();
            let lex_again: Vec<Value> = inputs.iter().map(|s| fresh(s, true)).collect();
            json!({"inputs":inputs,"multi":multi,"multi_panic":multi_panic,"alone":alone,"twice":twice,"chars":chars,"lex_seq":lex_seq,"lex_again":lex_again})
        }
        // ------------------------------------------------------------ M1 event trace (hooks, --cfg narsese_verif)
        "trace_multi" => {
            use narsese::conversion::string::impl_enum::verif_trace;
            let fmt = s_of(c, "fmt");
            let f = enum_format(fmt);
            let inputs: Vec<String> = c["inputs"].as_array().expect("inputs").iter().map(|x| match x {
                Value::String(s) => s.clone(),
                Value::Array(a) => a.iter().map(|t| t.as_str().unwrap()).collect(),
                _ => panic!("bad input"),
            }).collect();
            verif_trace::install();
            let r = guarded(|| f.parse_multi(inputs.iter().map(|s| s.as_str())));
            let events: Vec<Value> = verif_trace::take().iter().map(|e| serde_json::from_str(e).unwrap_or(json!({"ev":"unparsable"}))).collect();
            let results = match r {
                Ok(v) => Value::Array(v.into_iter().map(|x| res(Ok(x), narsese_to)).collect()),
                Err(p) => json!([{"r":"panic","msg":p}]),
            };
            json!({"inputs":inputs,"events":events,"results":results})
        }
        // ------------------------------------------------------------ M8 event trace (hooks, --cfg narsese_verif)
        "trace_lex" => {
            use narsese::conversion::string::impl_lexical::verif_trace;
            let fmt = s_of(c, "fmt");
            let s = text_of(c, "s");
            let f = lex_format(fmt);
            verif_trace::install();
            let r = guarded(|| f.parse(&s));
            let all = verif_trace::take();
            // the window event and the first 120 segmenter calls (the calls are independent of each other)
            let cuts: Vec<&String> = all.iter().filter(|e| e.contains(r#""ev":"cuts""#)).collect();
            let segs: Vec<&String> = all.iter().filter(|e| !e.contains(r#""ev":"cuts""#)).collect();
            let keep: Vec<Value> = cuts.iter().chain(segs.iter().take(120)).map(|e| serde_json::from_str(e).unwrap_or(json!({"ev":"unparsable","raw":e.to_string()}))).collect();
            json!({"s":s,"events":keep,"n_events":all.len(),"truncated":segs.len() > 120 && cuts.is_empty(),"r":res(r, lnarsese_to)})
        }
        // ------------------------------------------------------------ C06 / C07
        "eqhash" => {
            let reps = c.get("reps").and_then(|r| r.as_u64()).unwrap_or(4) as usize;
            let mut out = vec![];
            for rep_no in 0..reps {
                // fresh instances every repetition: every HashSet gets a fresh RandomState
                let a = match guarded(|| term_of(&c["a"])) { Ok(Ok(t)) => t, e => return json!({"build":"fail","msg":format!("{e:?}")}) };
                // b is built (and hashed once) on ANOTHER thread: values built anywhere in the process must agree
                let built_b = std::thread::scope(|sc| sc.spawn(|| guarded(|| term_of(&c["b"]).map(|t| { let h = hash_default(&t); (t, h) }))).join());
                let (b, hb_other_thread) = match built_b { Ok(Ok(Ok(x))) => x, e => return json!({"build":"fail","msg":format!("{:?}", e.is_ok())}) };
                let a2 = a.clone();
                let rs = RandomState::new();
                let mut ra = Recorder::default();
                let mut rb = Recorder::default();
                a.hash(&mut ra);
                b.hash(&mut rb);
                let mut set = HashSet::new();
                set.insert(a.clone());
                let mut map = std::collections::HashMap::new();
                map.insert(a.clone(), 1u8);
                // the same questions asked again after the values have been used (compared, hashed, formatted, collected in a set)
                let (ab_first, ha_first) = (a == b, hash_default(&a));
                let _ = enum_format("ascii").format_term(&a);
                let _ = enum_format("han").format_term(&b);
                out.push(json!({
                    "ab_again": (a == b) == ab_first, "ha_again": hash_default(&a) == ha_first, "h_clone_eq": hash_default(&a2) == ha_first,
                    "ab": ab_first, "ba": b == a, "aa": a == a2, "bb": b == b.clone(),
                    "ha": hash_default(&a).to_string(), "hb": hash_default(&b).to_string(), "hb_other_thread": hb_other_thread.to_string(),
                    "hr_eq": rs.hash_one(&a) == rs.hash_one(&b),
                    "stream_eq": ra.0 == rb.0,
                    "contains": set.contains(&b), "map_get": map.get(&b).is_some(),
                    // derived equality of sentences / tasks / Narsese goes through the term
                    "sentence_eq": en::Sentence::new_question(a.clone(), en::Stamp::Eternal) == en::Sentence::new_question(b.clone(), en::Stamp::Eternal),
                    "narsese_eq": en::Narsese::Term(a.clone()) == en::Narsese::Term(b.clone()),
                    // the projected values (to confirm the harness built what was asked) only once: they dominate the size
                    "pa": if rep_no == 0 { term_to(&a) } else { json!({"k":"same"}) }, "pb": if rep_no == 0 { term_to(&b) } else { json!({"k":"same"}) },
                }));
            }
            json!({"reps":out})
        }
        "eq3" => {
            // transitivity / symmetry over a triple of recipes
            let t: Vec<en::Term> = ["a", "b", "c"].iter().map(|k| term_of(&c[*k]).expect("recipe")).collect();
            json!({"ab":t[0]==t[1],"ba":t[1]==t[0],"bc":t[1]==t[2],"cb":t[2]==t[1],"ac":t[0]==t[2],"ca":t[2]==t[0],
                   "p":[term_to(&t[0]),term_to(&t[1]),term_to(&t[2])]})
        }
        "eq_parse_twice" => {
            let fmt = s_of(c, "fmt");
            let s = text_of(c, "s");
            let f = enum_format(fmt);
            let a = guarded(|| f.parse::<en::Narsese>(&s));
            let b = guarded(|| f.parse::<en::Narsese>(&s));
            match (a, b) {
                (Ok(Ok(a)), Ok(Ok(b))) => {
                    let (ta, tb) = (narsese::api::GetTerm::get_term(&a).clone(), narsese::api::GetTerm::get_term(&b).clone());
                    let mut set = HashSet::new();
                    set.insert(ta.clone());
                    json!({"both_ok":true,"eq":a==b,"eq_rev":b==a,"h_eq":hash_default(&ta)==hash_default(&tb),"contains":set.contains(&tb),"pa":narsese_to(&a),"pb":narsese_to(&b)})
                }
                (a, b) => json!({"both_ok":false,"a_ok":matches!(a,Ok(Ok(_))),"b_ok":matches!(b,Ok(Ok(_)))}),
            }
        }
        // ------------------------------------------------------------ C13
        "numbers" => {
            let fs = floats_of(&c["f"]).expect("floats");
            let bits = |f: f64| format!("{:016x}", f.to_bits());
            let pf = |r: Result<Result<Vec<f64>, String>, String>| -> Value {
                match r {
                    Ok(Ok(v)) => json!({"r":"ok","bits":v.iter().map(|x| bits(*x)).collect::<Vec<_>>()}),
                    Ok(Err(e)) => json!({"r":"err","msg":e}),
                    Err(p) => json!({"r":"panic","msg":p}),
                }
            };
            let tv = |t: &en::Truth| -> Vec<f64> {
                match t { en::Truth::Empty => vec![], en::Truth::Single(f) => vec![*f], en::Truth::Double(f, c) => vec![*f, *c] }
            };
            let bv = |b: &en::Budget| -> Vec<f64> {
                match b { en::Budget::Empty => vec![], en::Budget::Single(p) => vec![*p], en::Budget::Double(p, d) => vec![*p, *d], en::Budget::Triple(p, d, q) => vec![*p, *d, *q] }
            };
            let mut o = json!({"in_bits": fs.iter().map(|x| bits(*x)).collect::<Vec<_>>()});
            o["truth_try"] = pf(guarded(|| en::Truth::try_from_floats(fs.iter().copied()).map(|t| tv(&t))));
            o["budget_try"] = pf(guarded(|| en::Budget::try_from_floats(fs.iter().copied()).map(|b| bv(&b))));
            // the same floats through an iterator that cannot tell its length in advance
            o["truth_try_lazy"] = pf(guarded(|| en::Truth::try_from_floats(fs.iter().copied().filter(|_| true)).map(|t| tv(&t))));
            o["budget_try_lazy"] = pf(guarded(|| en::Budget::try_from_floats(fs.iter().copied().filter(|_| true)).map(|b| bv(&b))));
            // panicking constructors, by arity
            let g = |i: usize| fs.get(i).copied();
            o["truth_new"] = match fs.len() {
                0 => pf(guarded(|| Ok(tv(&en::Truth::new_empty())))),
                1 => pf(guarded(|| Ok(tv(&en::Truth::new_single(fs[0]))))),
                _ => pf(guarded(|| Ok(tv(&en::Truth::new_double(fs[0], fs[1]))))),
            };
            o["budget_new"] = match fs.len() {
                0 => pf(guarded(|| Ok(bv(&en::Budget::new_empty())))),
                1 => pf(guarded(|| Ok(bv(&en::Budget::new_single(fs[0]))))),
                2 => pf(guarded(|| Ok(bv(&en::Budget::new_double(fs[0], fs[1]))))),
                _ => pf(guarded(|| Ok(bv(&en::Budget::new_triple(fs[0], fs[1], fs[2]))))),
            };
            // accessors on the successfully built values
            let acc = |r: Result<f64, String>| -> Value { match r { Ok(x) => json!({"r":"ok","bits":bits(x)}), Err(p) => json!({"r":"panic","msg":p}) } };
            if let Ok(t) = en::Truth::try_from_floats(fs.iter().copied()) {
                o["truth_f"] = acc(guarded(|| t.f()));
                o["truth_c"] = acc(guarded(|| t.c()));
                use narsese::api::EvidentValue;
                o["truth_get_f"] = acc(guarded(|| t.get_frequency()));
                o["truth_get_c"] = acc(guarded(|| t.get_confidence()));
            }
            if let Ok(b) = en::Budget::try_from_floats(fs.iter().copied()) {
                o["budget_p"] = acc(guarded(|| b.p()));
                o["budget_d"] = acc(guarded(|| b.d()));
                o["budget_q"] = acc(guarded(|| b.q()));
                o["budget_priority"] = acc(guarded(|| b.priority()));
                o["budget_duality"] = acc(guarded(|| b.duality()));
                o["budget_quality"] = acc(guarded(|| b.quality()));
                o["budget_is_empty"] = json!(b.is_empty());
            }
            // evidence-number API on the first component
            if let Some(x) = g(0) {
                use narsese::api::EvidentNumber;
                o["en_is_valid"] = json!(x.is_valid());
                o["en_try"] = match guarded(|| x.try_validate().map(|v| *v).map_err(|e| e.to_string())) {
                    Ok(Ok(v)) => json!({"r":"ok","bits":bits(v)}), Ok(Err(e)) => json!({"r":"err","msg":e}), Err(p) => json!({"r":"panic","msg":p}) };
                o["en_validate"] = match guarded(|| *x.validate()) { Ok(v) => json!({"r":"ok","bits":bits(v)}), Err(p) => json!({"r":"panic","msg":p}) };
                // `valid` is the library's own verdict on the root, `in_unit` the primitive comparison 0 <= r <= 1 (false for NaN)
                let roots: Vec<Value> = [0usize, 1, 2, 3, 7, 64, 1000, 1 << 31, (1 << 31) + 1, usize::MAX / 2 + 1, usize::MAX].iter().map(|n| {
                    match guarded(|| x.root(*n)) { Ok(r) => json!({"n":n,"bits":bits(r),"valid":r.is_valid(),"in_unit":r >= 0.0 && r <= 1.0}), Err(p) => json!({"n":n,"panic":p}) }
                }).collect();
                o["en_roots"] = Value::Array(roots);
                o["en_zero_one"] = json!([bits(<f64 as EvidentNumber>::zero()), bits(<f64 as EvidentNumber>::one())]);
            }
            o
        }
        // ------------------------------------------------------------ C14
        "accessors" => {
            let t = match guarded(|| term_of(&c["t"])) { Ok(Ok(t)) => t, e => return json!({"build":"fail","msg":format!("{e:?}")}) };
            let list = |v: Vec<&en::Term>| Value::Array(v.into_iter().map(term_to).collect());
            json!({
                "build":"ok",
                "t": term_to(&t),
                "components": guarded(|| list(t.get_components())).unwrap_or_else(|p| json!({"panic":p})),
                "with_placeholder": guarded(|| list(t.get_components_including_placeholder())).unwrap_or_else(|p| json!({"panic":p})),
                "compound_components": match guarded(|| t.get_compound_components().map(list)) {
                    Ok(Some(l)) => json!({"some":true,"v":l}), Ok(None) => json!({"some":false}), Err(p) => json!({"some":false,"panic":p}) },
                "extract": guarded(|| Value::Array(t.clone().extract_terms_to_vec().iter().map(term_to).collect())).unwrap_or_else(|p| json!({"panic":p})),
                "extract_iter": guarded(|| Value::Array(t.clone().extract_terms().map(|x| term_to(&x)).collect())).unwrap_or_else(|p| json!({"panic":p})),
                "pred": predicates(&t),
                "is_image": t.is_image(),
                "atom_name": opt_s(t.get_atom_name()),
            })
        }
        "lex_accessors" => {
            let fmt = s_of(c, "fmt");
            let t = lterm_of(&c["t"]).expect("lexical term");
            let folded = guarded(|| t.clone().try_fold_into(enum_format(fmt)).map_err(|e| format!("{e:?}")));
            let fold_pred = match &folded { Ok(Ok(e)) => predicates(e), _ => json!({"na":true}) };
            json!({
                "extract": Value::Array(t.clone().extract_terms_to_vec().iter().map(lterm_to).collect()),
                "pred": predicates(&t),
                "fold": res(folded, term_to),
                "fold_pred": fold_pred,
            })
        }
        "image_iter" => {
            // ImageIterator stepped explicitly: n raw components, placeholder index i, `steps` calls of next()
            let n = c["n"].as_u64().unwrap() as usize;
            let i = c["i"].as_u64().unwrap() as usize;
            let steps = c["steps"].as_u64().unwrap() as usize;
            let raw: Vec<en::Term> = (0..n).map(|k| en::Term::new_word(format!("c{k}"))).collect();
            let mut it = en::ImageIterator::new(raw.iter(), i);
            let outs: Vec<Value> = (0..steps).map(|_| match it.next() { Some(t) => term_to(t), None => json!({"k":"None"}) }).collect();
            json!({"outs":outs})
        }
        // ------------------------------------------------------------ C15
        "lifecycle" => lifecycle(c),
        // ------------------------------------------------------------ C16
        "typst" => {
            let v = match guarded(|| narsese_of(&c["v"])) { Ok(Ok(v)) => v, e => return json!({"build":"fail","msg":format!("{e:?}")}) };
            let reps = c.get("reps").and_then(|r| r.as_u64()).unwrap_or(2) as usize;
            let mut texts = vec![];
            for _ in 0..reps {
                let fresh = narsese_of(&c["v"]).unwrap();
                texts.push(match guarded(|| typst_of(&fresh)) { Ok(s) => json!({"r":"ok","s":s,"pv":narsese_to(&fresh)}), Err(p) => json!({"r":"panic","msg":p}) });
            }
            // parts rendered alone
            let parts = match &v {
                en::Narsese::Term(_) => json!({}),
                en::Narsese::Sentence(s) => sentence_parts(s),
                en::Narsese::Task(t) => { let mut p = sentence_parts(t.get_sentence()); p["budget"] = part(guarded(|| FormatterTypst.format(narsese::api::GetBudget::get_budget(t)))); p }
            };
            json!({"texts":texts,"parts":parts,"back":narsese_to(&v)})
        }
        // ------------------------------------------------------------ C17
        "mut" => {
            let mut t = match guarded(|| term_of(&c["t"])) { Ok(Ok(t)) => t, e => return json!({"build":"fail","msg":format!("{e:?}")}) };
            let mut steps = vec![json!({"t":term_to(&t),"name":opt_s(t.get_atom_name())})];
            for o in c["ops"].as_array().expect("ops") {
                let r = match s_of(o, "op") {
                    "set_name" => { let n = text_of(o, "n"); guarded(|| t.set_atom_name(&n).map_err(|e| e.to_string())) }
                    "push" => { let cs: Vec<en::Term> = o["cs"].as_array().unwrap().iter().map(|x| term_of(x).unwrap()).collect(); if cs.len() % 2 == 1 { guarded(|| t.push_components(cs.into_iter().filter(|_| true)).map_err(|e| e.to_string())) } else { guarded(|| t.push_components(cs).map_err(|e| e.to_string())) } }
                    other => panic!("unknown mutator {other}"),
                };
                let ok = match r { Ok(Ok(())) => "ok", Ok(Err(_)) => "err", Err(_) => "panic" };
                steps.push(json!({"res":ok,"t":term_to(&t),"name":opt_s(guarded(|| t.get_atom_name()).unwrap_or(None))}));
            }
            json!({"steps":steps})
        }
        // ------------------------------------------------------------ C11
        "ascii_out" => {
            let lf = lex_format("ascii");
            let (s, kind, entries_agree) = if c.get("lv").is_some() {
                let v = lnarsese_of(&c["lv"]).expect("lexical value");
                let s = lf.format_narsese(&v);
                let same = guarded(|| lex_text_by_kind("ascii", &v)).map(|t| t == s).unwrap_or(false);
                (s, s_of(&c["lv"], "kind").to_string(), same)
            } else {
                let v = match guarded(|| narsese_of(&c["v"])) { Ok(Ok(v)) => v, e => return json!({"build":"fail","msg":format!("{e:?}")}) };
                let s = enum_format("ascii").format_narsese(&v);
                let same = guarded(|| enum_text_by_kind("ascii", &v)).map(|t| t == s).unwrap_or(false)
                    && guarded(|| FormatTo::<_, String>::format_to(&v, enum_format("ascii"))).map(|t| t == s).unwrap_or(false);
                (s, s_of(&c["v"], "kind").to_string(), same)
            };
            let (l, _) = lex_parse("ascii", &s);
            json!({"s":s,"chars":s.chars().map(|c| c.to_string()).collect::<Vec<_>>(),"kind":kind,"lex":l,"entries_agree":entries_agree})
        }
        // ------------------------------------------------------------ beyond the listed properties (DESIGN §10)
        "options" => {
            // M9: NarseseOptions as a state machine over five slots; slot i holds the value i+1 when filled
            use narsese::api::NarseseOptions;
            let init = s_of(c, "slots").as_bytes().to_vec();
            let some = |i: usize| if init[i] == b'1' { Some((i + 1) as u8) } else { None };
            let mut m: NarseseOptions<u8, u8, u8, u8, u8> = NarseseOptions { budget: some(0), term: some(1), punctuation: some(2), stamp: some(3), truth: some(4) };
            let slots = |m: &NarseseOptions<u8, u8, u8, u8, u8>| -> String {
                [m.budget.is_some(), m.term.is_some(), m.punctuation.is_some(), m.stamp.is_some(), m.truth.is_some()].iter().map(|b| if *b { '1' } else { '0' }).collect()
            };
            let o8 = |o: Option<u8>| o.map(|v| v as i64).unwrap_or(0);
            let mut steps = vec![];
            for op in c["ops"].as_array().expect("ops") {
                let r: Value = match op.as_str().unwrap() {
                    "take_budget" => json!([o8(m.take_budget())]),
                    "take_term" => json!([o8(m.take_term())]),
                    "take_punctuation" => json!([o8(m.take_punctuation())]),
                    "take_stamp" => json!([o8(m.take_stamp())]),
                    "take_truth" => json!([o8(m.take_truth())]),
                    "take" => { let t = m.take(); json!([o8(t.budget), o8(t.term), o8(t.punctuation), o8(t.stamp), o8(t.truth)]) }
                    "has_sentence" => json!([if m.has_sentence() { 1 } else { 0 }]),
                    "has_task" => json!([if m.has_task() { 1 } else { 0 }]),
                    "take_sentence" => match m.take_sentence() { Some((t, p, st, tr)) => json!([1, t, p, o8(st), o8(tr)]), None => json!([0]) },
                    "take_task" => match m.take_task() { Some((b, t, p, st, tr)) => json!([1, b, t, p, o8(st), o8(tr)]), None => json!([0]) },
                    "clone_eq" => json!([if m.clone() == m { 1 } else { 0 }]),
                    other => json!([-1, other]),
                };
                steps.push(json!({"res": r, "slots": slots(&m)}));
            }
            json!({"steps": steps})
        }
        "parts" => {
            // stand-alone formatting / parsing of truth, budget, stamp, punctuation (FormatTo / FromParse side doors) and fold of the lexical lists
            let fmt = s_of(c, "fmt");
            let f = enum_format(fmt);
            let truth = truth_of(&c["truth"]).expect("truth");
            let budget = budget_of(&c["budget"]).expect("budget");
            let stamp = stamp_of(&c["stamp"]).expect("stamp");
            let punct = punct_of(s_of(c, "punct")).expect("punct");
            let ts = f.format_truth(&truth);
            let bs = f.format_budget(&budget);
            let ss = f.format_stamp(&stamp);
            let ps = f.format_punctuation(&punct);
            let lt: Vec<String> = c["truth"].as_array().unwrap().iter().map(|x| x.as_str().unwrap().to_string()).collect();
            let lb: Vec<String> = c["budget"].as_array().unwrap().iter().map(|x| x.as_str().unwrap().to_string()).collect();
            let mut tm = truth.clone();
            use narsese::api::EvidentValueMut;
            let set_f = guarded(|| { tm.set_frequency(&0.25); truth_to(&tm) });
            let mut tm2 = truth.clone();
            let set_c = guarded(|| { tm2.set_confidence(&0.125); truth_to(&tm2) });
            json!({
                "ts": ts, "bs": bs, "ss": ss, "ps": ps,
                "truth": if ts.is_empty() { json!({"r":"empty"}) } else { res(guarded(|| f.parse::<en::Truth>(&ts)), truth_to) },
                "budget": res(guarded(|| f.parse::<en::Budget>(&bs)), budget_to),
                "stamp": res(guarded(|| f.parse::<en::Stamp>(&ss)), stamp_to),
                "punct": res(guarded(|| f.parse::<en::Punctuation>(&ps)), |p| json!(punct_to(p))),
                "fold_truth": res(guarded(|| lt.clone().try_fold_into(f).map_err(|e| format!("{e:?}"))), truth_to),
                "fold_budget": res(guarded(|| lb.clone().try_fold_into(f).map_err(|e| format!("{e:?}"))), budget_to),
                "set_f": match set_f { Ok(v) => json!({"r":"ok","v":v}), Err(_) => json!({"r":"panic"}) },
                "set_c": match set_c { Ok(v) => json!({"r":"ok","v":v}), Err(_) => json!({"r":"panic"}) },
            })
        }
        "echo" => c.clone(),
        other => json!({"error":format!("unknown op {other}")}),
    }
}

fn part(r: Result<String, String>) -> Value {
    match r {
        Ok(s) => json!({"r":"ok","s":s}),
        Err(p) => json!({"r":"panic","msg":p}),
    }
}
fn sentence_parts(s: &en::Sentence) -> Value {
    use narsese::api::{GetPunctuation, GetStamp, GetTruth};
    json!({
        "punct": part(guarded(|| FormatterTypst.format(s.get_punctuation()))),
        "stamp": part(guarded(|| FormatterTypst.format(s.get_stamp()))),
        "truth": part(guarded(|| FormatterTypst.format(s.get_truth().unwrap_or(&en::Truth::Empty)))),
    })
}

/// M3: a Narsese value moved between kinds. One command = initial value + a list of operations;
/// the projected value (or the error) is recorded after every step.
fn lifecycle(c: &Value) -> Value {
    // every result is a record {"r": tag, ...} (TLC cannot compare a string with a record)
    let tag = |t: &str| json!({"r": t});
    let model = s_of(c, "model");
    let mut steps = vec![];
    if model == "enum" {
        let mut cur: en::Narsese = match guarded(|| narsese_of(&c["v"])) { Ok(Ok(v)) => v, e => return json!({"build":"fail","msg":format!("{e:?}")}) };
        steps.push(json!({"res":tag("init"),"v":narsese_to(&cur)}));
        for o in c["ops"].as_array().expect("ops") {
            let v = cur.clone();
            let (res, next): (Value, en::Narsese) = match o.as_str().unwrap() {
                "is" => (json!({"r":"is","is":[v.is_term(), v.is_sentence(), v.is_task()]}), v),
                "try_into_term" => match v.clone().try_into_term() { Ok(t) => (tag("ok"), en::Narsese::from_term(t)), Err(e) => (json!({"r":"err","shown":!e.to_string().is_empty()}), v) },
                "try_into_sentence" => match v.clone().try_into_sentence() { Ok(s) => (tag("ok"), en::Narsese::from_sentence(s)), Err(_) => (tag("err"), v) },
                "try_into_task" => match v.clone().try_into_task() { Ok(t) => (tag("ok"), en::Narsese::from_task(t)), Err(_) => (tag("err"), v) },
                "try_into_task_compatible" => match v.clone().try_into_task_compatible() { Ok(t) => (tag("ok"), en::Narsese::from_task(t)), Err(_) => (tag("err"), v) },
                "std_try_term" => match en::Term::try_from(v.clone()) { Ok(t) => (tag("ok"), en::Narsese::Term(t)), Err(_) => (tag("err"), v) },
                "std_try_sentence" => match en::Sentence::try_from(v.clone()) { Ok(t) => (tag("ok"), en::Narsese::Sentence(t)), Err(_) => (tag("err"), v) },
                "std_try_task" => match en::Task::try_from(v.clone()) { Ok(t) => (tag("ok"), en::Narsese::Task(t)), Err(_) => (tag("err"), v) },
                "cast_to_task" => match v { en::Narsese::Sentence(s) => (tag("ok"), en::Narsese::Task(s.cast_to_task())), other => (tag("na"), other) },
                "try_cast_to_sentence" => match v { en::Narsese::Task(t) => match t.try_cast_to_sentence() { Ok(s) => (tag("ok"), en::Narsese::Sentence(s)), Err(t) => (tag("err"), en::Narsese::Task(t)) }, other => (tag("na"), other) },
                "value_try_cast_to_sentence" => match v.try_cast_to_sentence() { Ok(x) => (tag("ok"), x), Err(x) => (tag("err"), x) },
                "get_term" => (json!({"r":"term","term":term_to(narsese::api::GetTerm::get_term(&v))}), v),
                f @ ("reparse_ascii" | "reparse_latex" | "reparse_han") => {
                    let n = &f[8..];
                    let s = enum_format(n).format_narsese(&v);
                    let same = guarded(|| enum_text_by_kind(n, &v)).map(|t| t == s).unwrap_or(false);
                    match guarded(|| enum_format(n).parse::<en::Narsese>(&s)) { Ok(Ok(x)) if same => (json!({"r":"reparsed","s":s}), x), _ => (json!({"r":"reparse-fail","s":s,"entries_agree":same}), v) }
                }
                other => (json!({"r":"unknown","op":other}), v),
            };
            steps.push(json!({"res":res,"v":narsese_to(&next)}));
            cur = next;
        }
    } else {
        let mut cur: lx::Narsese = match lnarsese_of(&c["v"]) { Ok(v) => v, Err(e) => return json!({"build":"fail","msg":e}) };
        steps.push(json!({"res":tag("init"),"v":lnarsese_to(&cur)}));
        for o in c["ops"].as_array().expect("ops") {
            let v = cur.clone();
            let (res, next): (Value, lx::Narsese) = match o.as_str().unwrap() {
                "is" => (json!({"r":"is","is":[v.is_term(), v.is_sentence(), v.is_task()]}), v),
                "try_into_term" => match v.clone().try_into_term() { Ok(t) => (tag("ok"), lx::Narsese::from_term(t)), Err(_) => (tag("err"), v) },
                "try_into_sentence" => match v.clone().try_into_sentence() { Ok(s) => (tag("ok"), lx::Narsese::from_sentence(s)), Err(_) => (tag("err"), v) },
                "try_into_task" => match v.clone().try_into_task() { Ok(t) => (tag("ok"), lx::Narsese::from_task(t)), Err(_) => (tag("err"), v) },
                "try_into_task_compatible" => match v.clone().try_into_task_compatible() { Ok(t) => (tag("ok"), lx::Narsese::from_task(t)), Err(_) => (tag("err"), v) },
                "cast_to_task" => match v { lx::Narsese::Sentence(s) => (tag("ok"), lx::Narsese::Task(s.cast_to_task())), other => (tag("na"), other) },
                "try_cast_to_sentence" => match v { lx::Narsese::Task(t) => match t.try_cast_to_sentence() { Ok(s) => (tag("ok"), lx::Narsese::Sentence(s)), Err(t) => (tag("err"), lx::Narsese::Task(t)) }, other => (tag("na"), other) },
                "value_try_cast_to_sentence" => match v.try_cast_to_sentence() { Ok(x) => (tag("ok"), x), Err(x) => (tag("err"), x) },
                "get_term" => (json!({"r":"term","term":lterm_to(narsese::api::GetTerm::get_term(&v))}), v),
                f @ ("reparse_ascii" | "reparse_latex" | "reparse_han") => {
                    let n = &f[8..];
                    let s = lex_format(n).format_narsese(&v);
                    let same = guarded(|| lex_text_by_kind(n, &v)).map(|t| t == s).unwrap_or(false);
                    match guarded(|| lex_format(n).parse(&s)) { Ok(Ok(x)) if same => (json!({"r":"reparsed","s":s}), x), _ => (json!({"r":"reparse-fail","s":s,"entries_agree":same}), v) }
                }
                other => (json!({"r":"unknown","op":other}), v),
            };
            steps.push(json!({"res":res,"v":lnarsese_to(&next)}));
            cur = next;
        }
    }
    json!({"steps":steps})
}

#[allow(dead_code)]
fn _category_unused(t: &en::Term) -> bool {
    t.is_atom()
}
