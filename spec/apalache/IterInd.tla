------------------------------- MODULE IterInd -------------------------------
(* M5 (ImageIterator) over integers only, for an UNBOUNDED number of components: an inductive
   invariant discharged by Apalache (C14: "an image's placeholder at its recorded index").
   State: n raw components, placeholder index ph <= n, `now` calls of next() so far, `taken` raw
   components handed out, `phOut` whether the placeholder was handed out, `nones` how many times
   next() answered None.
     next():  now = ph  -> placeholder            (now, phOut := now+1, TRUE)
              otherwise -> the next raw component, or None when they are used up          *)
EXTENDS Integers

VARIABLES
  \* @type: Int;
  n,
  \* @type: Int;
  ph,
  \* @type: Int;
  now,
  \* @type: Int;
  taken,
  \* @type: Bool;
  phOut,
  \* @type: Int;
  nones

Init == /\ n \in Nat /\ ph \in 0..n /\ now = 0 /\ taken = 0 /\ phOut = FALSE /\ nones = 0

Next == /\ UNCHANGED <<n, ph>>
        /\ now' = now + 1
        /\ IF now = ph
           THEN phOut' = TRUE /\ taken' = taken /\ nones' = nones
           ELSE IF taken < n
                THEN taken' = taken + 1 /\ phOut' = phOut /\ nones' = nones
                ELSE taken' = taken /\ phOut' = phOut /\ nones' = nones + 1

\* the placeholder comes out exactly at position ph, every raw component before None, and never a None
\* while something is left: after `now` calls the outputs are the first `now` elements of "placeholder re-inserted"
IndInv ==
  /\ n >= 0 /\ ph >= 0 /\ ph <= n /\ now >= 0 /\ taken >= 0 /\ nones >= 0
  /\ phOut = (now > ph)
  /\ (now <= n + 1 => (nones = 0 /\ taken = now - (IF now > ph THEN 1 ELSE 0)))
  /\ (now > n + 1 => (taken = n /\ nones = now - (n + 1)))
\* any state satisfying the invariant (for the inductive step)
IndInit == /\ n \in Int /\ ph \in Int /\ now \in Int /\ taken \in Int /\ phOut \in BOOLEAN /\ nones \in Int
           /\ IndInv
\* what C14 needs: exactly one placeholder and all n components within the first n+1 calls, None afterwards
Safety == /\ (now = n + 1 => (phOut /\ taken = n /\ nones = 0))
          /\ (now <= n + 1 => nones = 0)
=============================================================================
