------------------------------- MODULE MC_C17 -------------------------------
(* Design-level model check of M2 and emission of one command per explored behaviour. *)
EXTENDS Mutators, Universe

CONSTANT DEPTH
VARIABLES t0, t, hist, last

vars == <<t0, t, hist, last>>

NameArgs == {"$x", "#y", "?z", "^op", "_", "", "abc", "x-y", "7", "+7", "007", "+", "-1", "-0", "1.5", " 7", "7 ", "7_0", "٣",
             VocabAll.usize_max, "18446744073709551616", "99999999999999999999999", "+00000000000000000000000000000000012",
             "+" \o VocabAll.usize_max, "0" \o VocabAll.usize_max, "²", "1½", "4294967296"}
PushArgs == {<<>>, <<W("a")>>, <<W("a"), W("a")>>, <<W("b"), W("a")>>, <<PH>>, <<SE1(W("a")), W("z")>>, <<W("c"), W("a"), W("c"), W("d")>>}
Ops == {[op |-> "set_name", n |-> n] : n \in NameArgs} \cup {[op |-> "push", cs |-> cs] : cs \in PushArgs}

Init == /\ t0 \in C17Start /\ t = t0 /\ hist = <<>> /\ last = [ok |-> TRUE]
Next == /\ Len(hist) < DEPTH
        /\ \E op \in Ops :
             LET r == ApplyOp(t, op) IN
             /\ t' = r.t /\ last' = [ok |-> r.ok] /\ hist' = Append(hist, op) /\ UNCHANGED t0

\* ---- what the design promises (C17): checked on every reachable state / step of the model
KindStable == t.k = t0.k
ImageIndexOK == t.k \in ImgKinds => t.i <= Len(t.q)
NameReadBack == (hist # <<>> /\ hist[Len(hist)].op = "set_name" /\ last.ok /\ t.k \in RenamableKinds)
                   => AtomName(t) = [some |-> TRUE, v |-> hist[Len(hist)].n]
ErrChangesNothing == [][(~last'.ok) => t' = t]_vars
OkOnlyWhereAllowed == [][LET op == hist'[Len(hist')] IN
                          /\ (op.op = "push" => (last'.ok <=> t.k \in SeqKinds \cup ImgKinds \cup SetKinds))
                          /\ (op.op = "set_name" /\ t.k \in CompoundKinds \cup StatementKinds => ~last'.ok)]_vars

Emit == (Len(hist) = DEPTH) =>
          PrintT(<<"CMD", ToJson([op |-> "mut", t |-> V2J(t0),
                                  ops |-> [i \in 1..Len(hist) |->
                                             IF hist[i].op = "push"
                                             THEN [op |-> "push", cs |-> [j \in 1..Len(hist[i].cs) |-> V2J(hist[i].cs[j])]]
                                             ELSE hist[i]]])>>)
Spec == Init /\ [][Next]_vars
=============================================================================
