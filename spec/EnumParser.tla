----------------------------- MODULE EnumParser -----------------------------
(* M1: a transcription of impl_enum/parser.rs (ParseState) on the vocabulary dumped from the
   code.  `e` is the environment (sequence of one-character strings), `h` the 0-based cursor
   `head`, which may legally run past Len(e) after an unchecked bracket skip.  Every parsing
   function returns a record [ok, h, ...]: the cursor it leaves behind matters even on
   failure, because first_method_ok! evaluates the condition of a later branch at the cursor
   the last failed branch left, and every failed branch builds an error message around it.

   The transcription follows the repaired tree: reset_to clears the slots, the error window is
   clamped, the fixed-stamp marker may be followed by spaces, the atom look-ahead needs a whole
   copula, a budget needs its closing bracket. *)
EXTENDS Values, Vocab

ERRVIEW == 4
Can(e, h) == h < Len(e)
SW(e, h, kw) == StartsAt(e, h, kw)                       \* ParseState::starts_with
RECURSIVE SkipSp(_, _)
SkipSp(e, h) == IF Len(F.space) > 0 /\ SW(e, h, F.space) THEN SkipSp(e, h + Len(F.space)) ELSE h

\* first kind of `order` whose keyword (in table) starts at h; "none" otherwise
RECURSIVE FirstKindFrom(_, _, _, _, _)
FirstKindFrom(e, h, order, table, i) ==
  IF i > Len(order) THEN "none"
  ELSE IF SW(e, h, table[order[i]]) THEN order[i] ELSE FirstKindFrom(e, h, order, table, i + 1)
FirstKind(e, h, order, table) == FirstKindFrom(e, h, order, table, 1)

Fail(h) == [ok |-> FALSE, h |-> h]

\* ---------------------------------------------------------------- error window (generate_env_slice, repaired)
ErrWindow(len, idx) ==
  LET left == IF idx > ERRVIEW THEN Min2(idx - ERRVIEW, len) ELSE 0
      right == IF idx + ERRVIEW + 1 < len THEN idx + ERRVIEW + 1 ELSE len
  IN [left |-> left, right |-> right]
SliceOK(len, idx) == LET w == ErrWindow(len, idx) IN w.left <= w.right /\ w.right <= len

\* ---------------------------------------------------------------- numbers
\* f64::from_str on a buffer of digits and points: at least one digit, at most one point
IsFloatBuf(b) == /\ \E i \in 1..Len(b) : b[i] \in Digits
                 /\ Cardinality({i \in 1..Len(b) : b[i] = "."}) <= 1
PointPos(b) == IF \E i \in 1..Len(b) : b[i] = "." THEN CHOOSE i \in 1..Len(b) : b[i] = "." ELSE Len(b) + 1
RECURSIVE StripL(_), StripR(_)
StripL(s) == IF Len(s) > 0 /\ Head(s) = "0" THEN StripL(Tail(s)) ELSE s
StripR(s) == IF Len(s) > 0 /\ s[Len(s)] = "0" THEN StripR(SubSeq(s, 1, Len(s) - 1)) ELSE s
RECURSIVE StrOf(_)
StrOf(cs) == IF cs = <<>> THEN "" ELSE cs[1] \o StrOf(Tail(cs))
\* f64 rounding at 1: 1 + x is the float 1.0 exactly when x <= 2^-53 (ties to even); the exact decimal of 2^-53:
HalfUlp == Chars("00000000000000011102230246251565404236316680908203125")
FracLeq(a, c) == LET n == Max2(Len(a), Len(c))
                     pa == a \o [i \in 1..(n - Len(a)) |-> "0"]
                     pc == c \o [i \in 1..(n - Len(c)) |-> "0"]
                 IN LexLeq(pa, pc, 1)
RoundsToOne(fp) == FracLeq(fp, HalfUlp)
\* the text Rust's Display prints for the parsed value (exact for short decimals; the judge never
\* relies on it for long digit runs)
FloatText(b) == LET p == PointPos(b)
                    ip == StripL(SubSeq(b, 1, p - 1))
                    fp == StripR(SubSeq(b, p + 1, Len(b)))
                IN IF ip = <<"1">> /\ fp # <<>> /\ RoundsToOne(fp) THEN "1"
                   ELSE StrOf((IF ip = <<>> THEN <<"0">> ELSE ip) \o (IF fp = <<>> THEN <<>> ELSE <<".">> \o fp))
FloatIn01(b) == LET p == PointPos(b)
                    ip == StripL(SubSeq(b, 1, p - 1))
                    fp == StripR(SubSeq(b, p + 1, Len(b)))
                IN ip = <<>> \/ (ip = <<"1">> /\ (fp = <<>> \/ FracLeq(fp, HalfUlp)))

\* parse_separated_floats::<N>: [ok, h, vals] ; vals = texts of the parsed numbers
RECURSIVE PFloats(_, _, _, _, _, _, _)
PFloats(e, h, sep, right, N, buf, vals) ==
  IF ~(Can(e, h) /\ Len(vals) < N) THEN [ok |-> TRUE, h |-> h, vals |-> vals]
  ELSE IF Len(F.space) > 0 /\ SW(e, h, F.space) THEN PFloats(e, h + Len(F.space), sep, right, N, buf, vals)
  ELSE IF e[h + 1] = "." \/ e[h + 1] \in Digits THEN PFloats(e, h + 1, sep, right, N, Append(buf, e[h + 1]), vals)
  ELSE IF SW(e, h, sep) THEN
         IF IsFloatBuf(buf) THEN PFloats(e, h + Len(sep), sep, right, N, <<>>, Append(vals, buf))
         ELSE [ok |-> FALSE, h |-> h, vals |-> vals]
  ELSE IF SW(e, h, right) THEN [ok |-> TRUE, h |-> h, vals |-> IF IsFloatBuf(buf) THEN Append(vals, buf) ELSE vals]
  ELSE [ok |-> FALSE, h |-> h, vals |-> vals]

\* ---------------------------------------------------------------- atoms
\* is_copula_starts_at_head (repaired: the whole copula must be there)
CopulaAhead(e, h) == \E i \in 1..Len(F.copulasFn) : SW(e, h, F.copulasFn[i])
RECURSIVE NameEnd(_, _)
NameEnd(e, h) == IF Can(e, h) /\ ~CopulaAhead(e, h) /\ e[h + 1] \in NameChars THEN NameEnd(e, h + 1) ELSE h

\* <usize as FromStr>
UIntOK(n) == LET d == IF Len(n) > 0 /\ n[1] = "+" THEN Tail(n) ELSE n
             IN IsDigits(d) /\ DecLeq(StripLeadingZeros(d), UsizeMax)
UIntText(n) == LET d == IF Len(n) > 0 /\ n[1] = "+" THEN Tail(n) ELSE n IN StrOf(StripLeadingZeros(d))

PAtom(e, h) ==
  LET kind == FirstKind(e, h, AtomOrder, F.prefix)        \* Word (empty prefix) always matches last
      h1 == h + Len(F.prefix[kind])
      h2 == NameEnd(e, h1)
      name == SubSeq(e, h1 + 1, h2)
  IN IF kind = "Placeholder" THEN [ok |-> TRUE, h |-> h2, t |-> PH]
     ELSE IF name = <<>> THEN Fail(h2)
     ELSE IF kind = "Interval" THEN (IF UIntOK(name) THEN [ok |-> TRUE, h |-> h2, t |-> [k |-> "Interval", n |-> UIntText(name)]] ELSE Fail(h2))
     ELSE [ok |-> TRUE, h |-> h2, t |-> [k |-> kind, n |-> StrOf(name)]]

\* ---------------------------------------------------------------- compound terms
RECURSIVE PTerm(_, _), PTerms(_, _, _, _)
\* parse_compound_terms
PTerms(e, h, right, acc) ==
  IF ~Can(e, h) THEN [ok |-> TRUE, h |-> h, ts |-> acc]
  ELSE IF Len(F.space) > 0 /\ SW(e, h, F.space) THEN PTerms(e, h + Len(F.space), right, acc)
  ELSE IF SW(e, h, F.sep) THEN PTerms(e, h + Len(F.sep), right, acc)
  ELSE IF SW(e, h, right) THEN [ok |-> TRUE, h |-> h, ts |-> acc]
  ELSE LET r == PTerm(e, h) IN IF r.ok THEN PTerms(e, r.h, right, Append(acc, r.t)) ELSE [ok |-> FALSE, h |-> r.h, ts |-> acc]

\* parse_term_set: the right bracket is skipped without checking that it is there
PSet(e, h, kind, l, r) ==
  LET h1 == SkipSp(e, h + Len(l))
      ts == PTerms(e, h1, r, <<>>)
  IN IF ~ts.ok THEN Fail(ts.h)
     ELSE LET h2 == SkipSp(e, ts.h) + Len(r)
          IN IF ts.ts = <<>> THEN Fail(h2) ELSE [ok |-> TRUE, h |-> h2, t |-> [k |-> kind, s |-> Rng(ts.ts)]]

PCompound(e, h) ==
  LET h1 == SkipSp(e, h + Len(F.compL)) IN
  IF SW(e, h1, F.prefix["Operator"]) THEN Fail(h1 + Len(F.prefix["Operator"]))      \* first_prefix_and_skip_first skips, then errs
  ELSE LET kind == FirstKind(e, h1, ConnOrder, F.conn) IN
  IF kind = "none" THEN Fail(h1)
  ELSE LET h2 == h1 + Len(F.conn[kind])
           ts == PTerms(e, h2, F.compR, <<>>)
       IN IF ~ts.ok THEN Fail(ts.h)
          ELSE IF ts.ts = <<>> THEN Fail(ts.h)
          ELSE LET h3 == SkipSp(e, ts.h) + Len(F.compR)        \* unchecked skip
                   c == ts.ts
               IN CASE kind = "Negation" -> IF Len(c) # 1 THEN Fail(ts.h) ELSE [ok |-> TRUE, h |-> h3, t |-> [k |-> kind, a |-> c[1]]]
                    [] kind \in {"DifferenceExtension", "DifferenceIntension"} ->
                         IF Len(c) # 2 THEN Fail(ts.h) ELSE [ok |-> TRUE, h |-> h3, t |-> [k |-> kind, a |-> c[1], b |-> c[2]]]
                    [] kind \in ImgKinds -> IF FirstPH(c) = 0 THEN Fail(ts.h) ELSE [ok |-> TRUE, h |-> h3, t |-> MkImage(kind, c)]
                    [] kind \in SeqKinds -> [ok |-> TRUE, h |-> h3, t |-> [k |-> kind, q |-> c]]
                    [] OTHER -> [ok |-> TRUE, h |-> h3, t |-> [k |-> kind, s |-> Rng(c)]]

PStatement(e, h) ==
  LET h1 == SkipSp(e, h + Len(F.stL))
      s == PTerm(e, h1)
  IN IF ~s.ok THEN Fail(s.h)
     ELSE LET h2 == SkipSp(e, s.h)
              kind == FirstKind(e, h2, CopOrder, F.cop)
          IN IF kind = "none" THEN Fail(h2)
             ELSE LET h3 == SkipSp(e, h2 + Len(F.cop[kind]))
                      p == PTerm(e, h3)
                  IN IF ~p.ok THEN Fail(p.h)
                     ELSE [ok |-> TRUE, h |-> SkipSp(e, p.h) + Len(F.stR), t |-> MkStatement(kind, s.t, p.t)]

PTerm(e, h) == IF SW(e, h, F.seL) THEN PSet(e, h, "SetExtension", F.seL, F.seR)
               ELSE IF SW(e, h, F.siL) THEN PSet(e, h, "SetIntension", F.siL, F.siR)
               ELSE IF SW(e, h, F.compL) THEN PCompound(e, h)
               ELSE IF SW(e, h, F.stL) THEN PStatement(e, h)
               ELSE PAtom(e, h)

\* ---------------------------------------------------------------- items
NoneV == [some |-> FALSE]
Some(x) == [some |-> TRUE, v |-> x]
EmptyMid == [budget |-> NoneV, term |-> NoneV, punct |-> NoneV, stamp |-> NoneV, truth |-> NoneV]
TextsOf(vals) == [i \in 1..Len(vals) |-> FloatText(vals[i])]

CBudget(e, h) ==
  LET h1 == SkipSp(e, h + Len(F.budL))
      r == PFloats(e, h1, F.budSep, F.budR, 3, <<>>, <<>>)
  IN IF ~r.ok THEN Fail(r.h)
     ELSE LET h2 == SkipSp(e, r.h) IN
          IF ~SW(e, h2, F.budR) THEN Fail(h2)                                  \* repaired: the closing bracket is required
          ELSE IF \E i \in 1..Len(r.vals) : ~FloatIn01(r.vals[i]) THEN Fail(h2)
          ELSE [ok |-> TRUE, h |-> h2 + Len(F.budR), v |-> TextsOf(r.vals)]
CTruth(e, h) ==
  LET h1 == SkipSp(e, h + Len(F.truthL))
      r == PFloats(e, h1, F.truthSep, F.truthR, 2, <<>>, <<>>)
  IN IF ~r.ok THEN Fail(r.h)
     ELSE IF \E i \in 1..Len(r.vals) : ~FloatIn01(r.vals[i]) THEN Fail(r.h)
     ELSE [ok |-> TRUE, h |-> SkipSp(e, r.h) + Len(F.truthR), v |-> TextsOf(r.vals)]      \* lenient: closing bracket unchecked

RECURSIVE IntEnd(_, _)
IntEnd(e, h) == IF Can(e, h) /\ (e[h + 1] \in Digits \/ e[h + 1] \in {"+", "-"}) THEN IntEnd(e, h + 1) ELSE h
\* <isize as FromStr>
IntOK(b) == LET neg == Len(b) > 0 /\ b[1] = "-"
                d == IF Len(b) > 0 /\ b[1] \in {"+", "-"} THEN Tail(b) ELSE b
            IN IsDigits(d) /\ DecLeq(StripLeadingZeros(d), IF neg THEN IsizeMinAbs ELSE IsizeMax)
IntText(b) == LET neg == b[1] = "-"
                  d == StripLeadingZeros(IF b[1] \in {"+", "-"} THEN Tail(b) ELSE b)
              IN StrOf((IF neg /\ d # <<"0">> THEN <<"-">> ELSE <<>>) \o d)
CStamp(e, h) ==
  LET h1 == SkipSp(e, h + Len(F.stampL))
      kind == FirstKind(e, h1, StampOrder, F.stamp)
  IN IF kind = "none" THEN Fail(h1)
     ELSE LET h2 == h1 + Len(F.stamp[kind]) IN
          IF kind = "Fixed" THEN
               LET h2s == SkipSp(e, h2)                         \* repaired: spaces after the marker
                   h3 == IntEnd(e, h2s)
                   b == SubSeq(e, h2s + 1, h3)
               IN IF h3 = h2s \/ ~IntOK(b) THEN Fail(h3)
                  ELSE [ok |-> TRUE, h |-> SkipSp(e, h3) + Len(F.stampR), v |-> [k |-> "Fixed", n |-> IntText(b)]]
          ELSE [ok |-> TRUE, h |-> SkipSp(e, h2) + Len(F.stampR), v |-> [k |-> kind]]
CPunct(e, h) == LET kind == FirstKind(e, h, PunctOrder, F.punct)
                IN IF kind = "none" THEN Fail(h) ELSE [ok |-> TRUE, h |-> h + Len(F.punct[kind]), v |-> kind]

\* ---------------------------------------------------------------- consume_one (first_method_ok!)
\* Every tried branch restarts at h0; the CONDITION of a later branch is evaluated at the cursor
\* the last failed branch left behind; `curs` collects every cursor at which an error was built.
ConsumeOne(e, h0, mid) ==
  LET b2c == SW(e, h0, F.budL) /\ ~mid.budget.some
      r2 == IF b2c THEN CBudget(e, h0) ELSE Fail(h0)
      cur2 == IF b2c THEN r2.h ELSE h0
  IN IF b2c /\ r2.ok THEN [ok |-> TRUE, h |-> r2.h, mid |-> [mid EXCEPT !.budget = Some(r2.v)], item |-> "budget", errs |-> <<>>]
  ELSE LET b3c == ~mid.term.some
           r3 == IF b3c THEN PTerm(e, h0) ELSE Fail(cur2)
           cur3 == IF b3c THEN r3.h ELSE cur2
           e3 == IF b2c THEN <<r2.h>> ELSE <<>>
  IN IF b3c /\ r3.ok THEN [ok |-> TRUE, h |-> r3.h, mid |-> [mid EXCEPT !.term = Some(r3.t)], item |-> "term", errs |-> e3]
  ELSE LET b4c == ~mid.punct.some
           r4 == IF b4c THEN CPunct(e, h0) ELSE Fail(cur3)
           cur4 == IF b4c THEN r4.h ELSE cur3
           e4 == e3 \o (IF b3c THEN <<r3.h>> ELSE <<>>)
  IN IF b4c /\ r4.ok THEN [ok |-> TRUE, h |-> r4.h, mid |-> [mid EXCEPT !.punct = Some(r4.v)], item |-> "punct", errs |-> e4]
  ELSE LET b5c == SW(e, cur4, F.stampL) /\ ~mid.stamp.some
           r5 == IF b5c THEN CStamp(e, h0) ELSE Fail(cur4)
           cur5 == IF b5c THEN r5.h ELSE cur4
           e5 == e4 \o (IF b4c THEN <<r4.h>> ELSE <<>>)
  IN IF b5c /\ r5.ok THEN [ok |-> TRUE, h |-> r5.h, mid |-> [mid EXCEPT !.stamp = Some(r5.v)], item |-> "stamp", errs |-> e5]
  ELSE LET b6c == SW(e, cur5, F.truthL) /\ ~mid.truth.some
           r6 == IF b6c THEN CTruth(e, h0) ELSE Fail(cur5)
           cur6 == IF b6c THEN r6.h ELSE cur5
           e6 == e5 \o (IF b5c THEN <<r5.h>> ELSE <<>>)
  IN IF b6c /\ r6.ok THEN [ok |-> TRUE, h |-> r6.h, mid |-> [mid EXCEPT !.truth = Some(r6.v)], item |-> "truth", errs |-> e6]
  ELSE [ok |-> FALSE, h |-> cur6, mid |-> mid, item |-> "none", errs |-> e6 \o (IF b6c THEN <<r6.h>> ELSE <<>>) \o <<cur6>>]

\* build_mid_result: [ok, h, mid, steps, errs]
\* a step = one successful consume_one: the item, the cursor before and after, the error cursors of the branches
\* that failed before the successful one, and the slots afterwards; `fail` = the consume_one that ended the build
NoFail == [some |-> FALSE]
RECURSIVE Build(_, _, _, _, _)
Build(e, h, mid, steps, errs) ==
  IF ~Can(e, h) THEN [ok |-> TRUE, h |-> h, mid |-> mid, steps |-> steps, errs |-> errs, fail |-> NoFail]
  ELSE LET h1 == SkipSp(e, h) IN
       IF ~Can(e, h1) THEN [ok |-> TRUE, h |-> h1, mid |-> mid, steps |-> steps, errs |-> errs, fail |-> NoFail]
       ELSE LET r == ConsumeOne(e, h1, mid) IN
            IF r.ok THEN Build(e, r.h, r.mid, Append(steps, [item |-> r.item, from |-> h1, to |-> r.h, errs |-> r.errs, mid |-> r.mid]), errs \o r.errs)
            ELSE [ok |-> FALSE, h |-> r.h, mid |-> r.mid, steps |-> steps, errs |-> errs \o r.errs, fail |-> [some |-> TRUE, from |-> h1, errs |-> r.errs]]

SentenceOf(m) == [t |-> m.term.v, p |-> m.punct.v,
                  st |-> IF m.stamp.some THEN m.stamp.v ELSE [k |-> "Eternal"],
                  tr |-> IF m.punct.v \in {"Question", "Quest"} THEN <<>> ELSE IF m.truth.some THEN m.truth.v ELSE <<>>]
ErrRes == [r |-> "err"]
OkRes(n) == [r |-> "ok", v |-> n]

\* one whole parse starting from the slots `mid0`; returns the result, the slots left behind
\* (transform_mid_result takes only what it uses), the error cursors and the steps taken
Run(e, mid0) ==
  LET b == Build(e, 0, mid0, <<>>, <<>>) IN
  IF ~b.ok THEN [res |-> ErrRes, mid |-> b.mid, errs |-> b.errs, steps |-> b.steps, h |-> b.h, fail |-> b.fail, built |-> FALSE, start |-> mid0]
  ELSE LET m == b.mid IN
       IF ~m.term.some THEN [res |-> ErrRes, mid |-> m, errs |-> Append(b.errs, b.h), steps |-> b.steps, h |-> b.h, fail |-> NoFail, built |-> TRUE, start |-> mid0]
       ELSE IF m.budget.some /\ m.punct.some
            THEN [res |-> OkRes([kind |-> "task", v |-> [b |-> m.budget.v, s |-> SentenceOf(m)]]), mid |-> EmptyMid, errs |-> b.errs, steps |-> b.steps, h |-> b.h, fail |-> NoFail, built |-> TRUE, start |-> mid0]
       ELSE IF m.punct.some
            THEN [res |-> OkRes([kind |-> "sentence", v |-> SentenceOf(m)]), mid |-> [EmptyMid EXCEPT !.budget = m.budget], errs |-> b.errs, steps |-> b.steps, h |-> b.h, fail |-> NoFail, built |-> TRUE, start |-> mid0]
       ELSE [res |-> OkRes([kind |-> "term", v |-> m.term.v]), mid |-> [m EXCEPT !.term = NoneV], errs |-> b.errs, steps |-> b.steps, h |-> b.h, fail |-> NoFail, built |-> TRUE, start |-> mid0]

\* ---------------------------------------------------------------- the event trace of one run (hooks, DESIGN 6.3)
\* what the instrumented ParseState emits for one input: build, then per consume_one an item_begin, the errors
\* of its failed branches and (on success) an item_end with the slots; then assemble, and an error if no term
SlotStr(m) == (IF m.budget.some THEN "1" ELSE "0") \o (IF m.term.some THEN "1" ELSE "0") \o (IF m.punct.some THEN "1" ELSE "0")
              \o (IF m.stamp.some THEN "1" ELSE "0") \o (IF m.truth.some THEN "1" ELSE "0")
ErrEvents(len, cursors) == [i \in 1..Len(cursors) |-> [ev |-> "error", index |-> cursors[i], len |-> len]]
StepEvents(len, st) == <<[ev |-> "item_begin", head |-> st.from]>> \o ErrEvents(len, st.errs) \o <<[ev |-> "item_end", head |-> st.to, slots |-> SlotStr(st.mid)]>>
EventsOf(e, run) ==
  <<[ev |-> "build", len |-> Len(e), head |-> 0, slots |-> SlotStr(run.start)]>>
  \o Cat([i \in 1..Len(run.steps) |-> StepEvents(Len(e), run.steps[i])])
  \o (IF run.fail.some THEN <<[ev |-> "item_begin", head |-> run.fail.from]>> \o ErrEvents(Len(e), run.fail.errs) ELSE <<>>)
  \o (IF run.built THEN <<[ev |-> "assemble", head |-> run.h, slots |-> SlotStr(IF run.steps = <<>> THEN run.start ELSE run.steps[Len(run.steps)].mid)]>>
                         \o (IF run.res.r = "err" THEN ErrEvents(Len(e), <<run.h>>) ELSE <<>>)
       ELSE <<>>)

\* parse / parse_chars / every element of parse_multi (reset_to clears the slots on the repaired tree)
Parse(e) == Run(e, EmptyMid).res
\* the stand-alone entry points (FromParse side doors)
ParseTruth(e) == LET r == CTruth(e, 0) IN IF r.ok THEN [r |-> "ok", v |-> r.v] ELSE ErrRes
ParseBudget(e) == LET r == CBudget(e, 0) IN IF r.ok THEN [r |-> "ok", v |-> r.v] ELSE ErrRes
ParseStamp(e) == IF e = <<>> THEN [r |-> "ok", v |-> [k |-> "Eternal"]]
                 ELSE LET r == CStamp(e, 0) IN IF r.ok THEN [r |-> "ok", v |-> r.v] ELSE ErrRes
ParsePunct(e) == LET r == CPunct(e, 0) IN IF r.ok THEN [r |-> "ok", v |-> r.v] ELSE ErrRes

\* every cursor at which the run built an error lies in a window that can be sliced (C04)
AllSlicesOK(e, run) == \A i \in 1..Len(run.errs) : SliceOK(Len(e), run.errs[i])
\* every successful consume step advances the cursor (termination of build_mid_result)
Progress(run) == \A i \in 1..Len(run.steps) : run.steps[i].to > run.steps[i].from

\* A decimal with 16 or more significant digits need not survive text -> f64 -> text; the model keeps decimal strings, so such
\* positions of the truth and budget lists are left out of the value comparison (shorter decimals are compared exactly).
Sig(str) == LET ds == SelectSeq(Chars(str), LAMBDA c : c \in {"0", "1", "2", "3", "4", "5", "6", "7", "8", "9"})
                nz == {i \in 1..Len(ds) : ds[i] # "0"}
            IN IF nz = {} THEN 0 ELSE Len(ds) - (CHOOSE i \in nz : \A j \in nz : i <= j) + 1
MaskNums(q, ref) == IF Len(q) # Len(ref) THEN q ELSE [i \in 1..Len(q) |-> IF Sig(ref[i]) >= 16 \/ Len(ref[i]) > 300 THEN "<long>" ELSE q[i]]
MaskN(n, ref) == IF n.kind # ref.kind THEN n
                 ELSE CASE n.kind = "term" -> n
                        [] n.kind = "sentence" -> [n EXCEPT !.v.tr = MaskNums(@, ref.v.tr)]
                        [] n.kind = "task" -> [n EXCEPT !.v.b = MaskNums(@, ref.v.b), !.v.s.tr = MaskNums(@, ref.v.s.tr)]
=========================================================================
