------------------------------- MODULE J_LexTrace -------------------------------
(* Trace validation of M8, the lexical parser (hooks under `--cfg narsese_verif`, /repo commit
   "verif hooks: lexical parser trace").  One observation = one lexical parse with its events:
     cuts      the window parse_items cut: length of the idealised environment, begin, right,
               and which of budget / truth / stamp / punctuation were found
     segment   one call of a recursive segmenter (term, atom, set, compound, statement) with the
               ENVIRONMENT it was given and what it returned (ok, right border)
   The segmenters are pure functions of their environment, so every recorded call - including the
   calls of branches that fail before another one succeeds, at every nesting depth - is compared
   with the specification's operator of the same name on the same environment; the window is
   compared with LexCuts.  A mismatch is DRIFT (model and code disagree); the verdict of the
   properties comes from the outcome-level judges. *)
EXTENDS LexParser, TLCExt

Obs == ndJsonDeserialize(IOEnv.NV_OBS)
VARIABLE l
V(b, tag) == IF b THEN {} ELSE {tag}
Known(s) == \A i \in 1..Len(s) : s[i] \in Alphabet

ModelOf(fn, e) == CASE fn = "term" -> SegTerm(e) [] fn = "atom" -> SegAtom(e) [] fn = "set" -> SegSet(e)
                    [] fn = "compound" -> SegCompound(e) [] fn = "statement" -> SegStatement(e)
SegDrift(ev) == LET e == Chars(ev.env) IN
                IF ~Known(e) THEN {}
                ELSE LET m == ModelOf(ev.fn, e) IN
                     IF m.ok # ev.ok THEN {"segment-" \o ev.fn \o "-verdict"}
                     ELSE IF m.ok /\ m.len # ev.right THEN {"segment-" \o ev.fn \o "-border"} ELSE {}
CutsDrift(ev, text) == LET c == LexCuts(Idealize(text)) IN
                       IF [len |-> ev.len, begin |-> ev.begin, right |-> ev.right, budget |-> ev.budget, truth |-> ev.truth, stamp |-> ev.stamp,
                           punctuation |-> ev.punctuation] = c THEN {} ELSE {"window"}
Viol(o) == V("events" \in DOMAIN o.o, "no-events")
Drift(o) == IF "events" \notin DOMAIN o.o \/ ~Known(Chars(o.o.s)) THEN {}
            ELSE UNION {IF o.o.events[i].ev = "segment" THEN SegDrift(o.o.events[i])
                        ELSE IF o.o.events[i].ev = "cuts" THEN CutsDrift(o.o.events[i], Chars(o.o.s)) ELSE {"unknown-event"} : i \in 1..Len(o.o.events)}
                 \cup (IF o.o.truncated \/ \E i \in 1..Len(o.o.events) : o.o.events[i].ev = "cuts" THEN {} ELSE {"no-window-event"})

Init == l = 1
Next == /\ l <= Len(Obs)
        /\ l' = l + 1
        /\ LET v == Viol(Obs[l]) IN v = {} \/ PrintT(<<"BAD", Obs[l].id, v>>)
        /\ LET d == Drift(Obs[l]) IN d = {} \/ PrintT(<<"DRIFT", Obs[l].id, d>>)
Done == /\ TLCGet("stats").diameter - 1 = Len(Obs)
        /\ PrintT(<<"JUDGED", Len(Obs)>>)
=============================================================================
