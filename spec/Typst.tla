-------------------------------- MODULE Typst --------------------------------
(* C16: the Typst renderer (typst_formatter/formatter_enum.rs) as a layout model on the markup
   constants dumped from the code: layout by arity (bracket-only for sets, infix for exactly two
   components, prefix otherwise), statements infix, and the whitespace post-processing.
   Terms are rendered from their ORDERED view (sets as the sequence in which the instance
   iterates), so the model can be compared with what a particular instance rendered. *)
EXTENDS Values, Vocab, SequencesExt

TY == VocabAll.typst
C(s) == Chars(s)
IsWs(c) == c \in Rng(VocabAll.classes[FmtName].unicode_ws)

\* post_process_whitespace: trim, then drop every whitespace character that follows a whitespace character
RECURSIVE TrimL(_), TrimR(_)
TrimL(s) == IF s # <<>> /\ IsWs(Head(s)) THEN TrimL(Tail(s)) ELSE s
TrimR(s) == IF s # <<>> /\ IsWs(s[Len(s)]) THEN TrimR(SubSeq(s, 1, Len(s) - 1)) ELSE s
PostProcess(s) == LET t == TrimR(TrimL(s)) IN
                  SelectSeq([i \in 1..Len(t) |-> IF i > 1 /\ IsWs(t[i - 1]) /\ IsWs(t[i]) THEN "<drop>" ELSE t[i]], LAMBDA c : c # "<drop>")
Normalised(s) == s = <<>> \/ (~IsWs(s[1]) /\ ~IsWs(s[Len(s)]) /\ \A i \in 1..(Len(s) - 1) : ~(IsWs(s[i]) /\ IsWs(s[i + 1])))

Quote(n) == <<"\"">> \o C(n) \o <<"\"">>          \* {:?} of a name without characters that need escaping
AtomName(t) == IF t.k = "Placeholder" THEN "" ELSE t.n

Feature(t) == IF IsAtom(t) THEN C(TY.prefix[t.k])
              ELSE IF t.k \in {"SetExtension", "SetIntension"} THEN <<>> ELSE C(TY.feature[t.k])
Brackets(t) == CASE t.k = "SetExtension" -> TY.br_ext_set [] t.k = "SetIntension" -> TY.br_int_set
                 [] IsCompound(t) -> TY.br_compound [] IsStatement(t) -> TY.br_statement

RECURSIVE TyTerm(_)
\* every sub-term is formatted (and post-processed) on its own before it is placed
TySub(t) == PostProcess(TyTerm(t))
TyComps(t) == CASE t.k \in SetKinds -> t.s [] t.k \in SeqKinds -> t.q [] t.k \in ImgKinds -> InsertAt(t.q, t.i + 1, PH)
                [] t.k = "Negation" -> <<t.a>> [] OTHER -> <<t.a, t.b>>
TyTerm(t) ==
  IF IsAtom(t) THEN Feature(t) \o Quote(AtomName(t))
  ELSE IF IsCompound(t) THEN
       LET cs == [i \in 1..Len(TyComps(t)) |-> TySub(TyComps(t)[i])]
           conn == Feature(t)
           sep == C(TY.sep_compound)
       IN C(Brackets(t)[1])
          \o (IF conn = <<>> THEN Join(cs, sep)
              ELSE IF Len(cs) = 2 THEN Join(cs, conn)
              ELSE conn \o sep \o Join(cs, sep))
          \o C(Brackets(t)[2])
  ELSE C(Brackets(t)[1]) \o TySub(t.a) \o C(TY.sep_statement) \o Feature(t) \o C(TY.sep_statement) \o TySub(t.b) \o C(Brackets(t)[2])

TyFloats(br, sep, nums) == C(br[1]) \o Join([i \in 1..Len(nums) |-> C(nums[i])], C(sep)) \o C(br[2])
TyTruth(tr) == IF tr = <<>> THEN <<>> ELSE TyFloats(TY.br_truth, TY.sep_truth, tr)
TyBudget(b) == TyFloats(TY.br_budget, TY.sep_budget, b)
TyStamp(st) == C(TY.stamp[st.k]) \o (IF st.k = "Fixed" THEN C(st.n) ELSE <<>>)
TyPunct(p) == C(TY.punct[p])
TySentenceRaw(s) == TyTerm(s.t) \o TyPunct(s.p) \o TyStamp(s.st) \o C(TY.sep_item) \o TyTruth(s.tr)
TyTaskRaw(t) == TyBudget(t.b) \o C(TY.sep_item) \o TyTerm(t.s.t) \o TyPunct(t.s.p) \o C(TY.sep_item) \o TyStamp(t.s.st)
                \o C(TY.sep_item) \o TyTruth(t.s.tr)
\* n: narsese value whose terms are ORDERED views (J2O)
TyN(n) == PostProcess(CASE n.kind = "term" -> TyTerm(n.v) [] n.kind = "sentence" -> TySentenceRaw(n.v) [] n.kind = "task" -> TyTaskRaw(n.v))

\* ordered view of a canonical value (an arbitrary but fixed order), for the design-level check
RECURSIVE OrdV(_)
OrdV(v) == CASE IsAtom(v) -> v
             [] v.k \in SetKinds -> [k |-> v.k, s |-> LET q == SetToSeq(v.s) IN [j \in 1..Len(q) |-> OrdV(q[j])]]
             [] v.k \in SeqKinds -> [k |-> v.k, q |-> [j \in 1..Len(v.q) |-> OrdV(v.q[j])]]
             [] v.k \in ImgKinds -> [k |-> v.k, i |-> v.i, q |-> [j \in 1..Len(v.q) |-> OrdV(v.q[j])]]
             [] v.k = "Negation" -> [k |-> v.k, a |-> OrdV(v.a)]
             [] v.k \in SymStmtKinds -> LET q == SetToSeq(v.p) IN [k |-> v.k, a |-> OrdV(q[1]), b |-> OrdV(q[IF Len(q) = 1 THEN 1 ELSE 2])]
             [] OTHER -> [k |-> v.k, a |-> OrdV(v.a), b |-> OrdV(v.b)]
OrdN(n) == CASE n.kind = "term" -> [kind |-> "term", v |-> OrdV(n.v)]
             [] n.kind = "sentence" -> [kind |-> "sentence", v |-> [n.v EXCEPT !.t = OrdV(@)]]
             [] n.kind = "task" -> [kind |-> "task", v |-> [n.v EXCEPT !.s.t = OrdV(@)]]
=============================================================================
