----------------------------- MODULE EnumFormat -----------------------------
(* The enum formatter as a TOKEN sequence plus a spacing, on the dumped vocabulary.
   A token is a non-empty character sequence that the grammar treats as a unit: an atom
   (prefix + name), a number (sign, digits, point), or one keyword.  Render(toks, sp) writes
   sp[i] spaces after token i.  CanonSpacing is what impl_enum/formatter.rs writes; the other
   spacings are the variants C09 quantifies over. *)
EXTENDS Values, Vocab, SequencesExt

Tok(cs) == IF cs = <<>> THEN <<>> ELSE <<cs>>          \* empty keywords (bracket-less stamps, word prefix) vanish
SpaceAfter(toks) == toks                               \* (documentation) spacing vectors have one entry per token boundary

\* every token carries a tag that says which boundary follows it in the canonical layout:
\*   "t" a space of format_terms follows, "i" a space of format_items follows, "n" nothing follows
T(cs, tag) == IF cs = <<>> THEN <<>> ELSE <<[c |-> cs, sp |-> tag]>>

RECURSIVE TermToks(_)
\* components joined by `separator space`
JoinComps(cs) == LET RECURSIVE J(_)
                     J(i) == IF i > Len(cs) THEN <<>>
                             ELSE (IF i > 1 THEN T(F.sep, "t") ELSE <<>>) \o cs[i] \o J(i + 1)
                 IN J(1)
SetSeq(S) == SetToSeq(S)
\* TermToks accepts canonical values AND surface trees (Sugar.tla): set-likes / images given as an
\* ordered component list `c`, statements with any of the 13 copulas and explicit operands a, b,
\* interval / placeholder atoms with raw text after the prefix.
Has(v, f) == f \in DOMAIN v
TermToks(v) ==
  CASE v.k = "Placeholder" -> T(F.prefix["Placeholder"], "n")
    [] v.k = "PlaceholderRaw" -> T(F.prefix["Placeholder"] \o Chars(v.raw), "n")
    [] v.k = "IntervalRaw" -> T(F.prefix["Interval"] \o Chars(v.raw), "n")
    [] v.k \in NamedAtomKinds -> T(F.prefix[v.k] \o Chars(v.n), "n")
    [] v.k \in {"SetExtension", "SetIntension"} ->
         LET q == IF Has(v, "c") THEN v.c ELSE SetSeq(v.s)
             l == IF v.k = "SetExtension" THEN F.seL ELSE F.siL
             r == IF v.k = "SetExtension" THEN F.seR ELSE F.siR
         IN T(l, "n") \o JoinComps([i \in 1..Len(q) |-> TermToks(q[i])]) \o T(r, "n")
    [] v.k \in CopKinds ->
         LET q == IF Has(v, "p") THEN SetSeq(v.p) ELSE <<>>
             a == IF Has(v, "p") THEN q[1] ELSE v.a
             b == IF Has(v, "p") THEN q[IF Len(q) = 1 THEN 1 ELSE 2] ELSE v.b
             ta == TermToks(a)
         IN T(F.stL, "n") \o SubSeq(ta, 1, Len(ta) - 1) \o <<[ta[Len(ta)] EXCEPT !.sp = "t"]>> \o T(F.cop[v.k], "t") \o TermToks(b) \o T(F.stR, "n")
    [] OTHER ->   \* bracketed compounds: ( connecter , components )
         LET comps == CASE v.k \in SetKinds -> (LET q == IF Has(v, "c") THEN v.c ELSE SetSeq(v.s) IN [i \in 1..Len(q) |-> TermToks(q[i])])
                        [] v.k \in SeqKinds -> [i \in 1..Len(v.q) |-> TermToks(v.q[i])]
                        [] v.k \in ImgKinds -> (LET c == IF Has(v, "c") THEN v.c ELSE InsertAt(v.q, v.i + 1, PH) IN [i \in 1..Len(c) |-> TermToks(c[i])])
                        [] v.k = "Negation" -> <<TermToks(v.a)>>
                        [] OTHER -> <<TermToks(v.a), TermToks(v.b)>>
         IN T(F.compL, "n") \o T(F.conn[v.k], "n") \o T(F.sep, "t") \o JoinComps(comps) \o T(F.compR, "n")

NumToks(nums, l, sep, r) ==
  LET RECURSIVE J(_)
      J(i) == IF i > Len(nums) THEN <<>> ELSE (IF i > 1 THEN T(sep, "n") ELSE <<>>) \o T(Chars(nums[i]), "n") \o J(i + 1)
  IN T(l, "n") \o J(1) \o T(r, "n")
StampToks(st) == CASE st.k = "Eternal" -> <<>>
                   [] st.k = "Fixed" -> T(F.stampL, "n") \o T(F.stamp["Fixed"], "n") \o T(Chars(st.n), "n") \o T(F.stampR, "n")
                   [] OTHER -> T(F.stampL, "n") \o T(F.stamp[st.k], "n") \o T(F.stampR, "n")
TruthToks(tr) == IF tr = <<>> THEN <<>> ELSE NumToks(tr, F.truthL, F.truthSep, F.truthR)
BudgetToks(b) == NumToks(b, F.budL, F.budSep, F.budR)

\* mark the last token of a group so that a space of the given kind follows it
EndWith(toks, tag) == IF toks = <<>> THEN <<>> ELSE SubSeq(toks, 1, Len(toks) - 1) \o <<[toks[Len(toks)] EXCEPT !.sp = tag]>>
SentenceToks(s) ==
  LET st == StampToks(s.st)
      tr == TruthToks(s.tr)
      head == TermToks(s.t) \o T(F.punct[s.p], "n")
  IN (IF st # <<>> \/ tr # <<>> THEN EndWith(head, "t") ELSE head)
     \o (IF tr # <<>> THEN EndWith(st, "t") ELSE st) \o tr
TaskToks(t) == EndWith(BudgetToks(t.b), "i") \o SentenceToks(t.s)
NarseseToks(n) == CASE n.kind = "term" -> TermToks(n.v)
                    [] n.kind = "sentence" -> SentenceToks(n.v)
                    [] n.kind = "task" -> TaskToks(n.v)

\* ---------------------------------------------------------------- rendering
Spaces(k) == [i \in 1..k |-> " "]
\* sp[i] = number of spaces written after token i (nothing after the last token)
Render(toks, sp) == Cat([i \in 1..Len(toks) |-> toks[i].c \o (IF i < Len(toks) THEN Spaces(sp[i]) ELSE <<>>)])
\* the formatter's own layout: the format's spaces where the templates put them
CanonText(toks) == Cat([i \in 1..Len(toks) |->
                          toks[i].c \o (IF i = Len(toks) THEN <<>>
                                        ELSE CASE toks[i].sp = "t" -> F.fspace [] toks[i].sp = "i" -> F.ispace [] OTHER -> <<>>)])
AllSp(toks, k) == [i \in 1..Len(toks) |-> k]
OnlyAt(toks, j, k, other) == [i \in 1..Len(toks) |-> IF i = j THEN k ELSE other]
Format(n) == CanonText(NarseseToks(n))
=============================================================================
