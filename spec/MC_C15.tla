------------------------------- MODULE MC_C15 -------------------------------
(* C15.  (1) M3 explored for all operation sequences of length DEPTH from term / sentence / task
   values of both data models; the stated equations are invariants of the behaviours.
   (2) Classification: every subset of the five items (budget, term, punctuation, stamp, truth)
   in canonical order around junction terms; when a parser accepts, the kind is decided by
   (has budget, has term, has punctuation), identically in both parsers. *)
EXTENDS Lifecycle, EnumFormat, LexValues, Universe

CONSTANTS DEPTH, SEEDS
VARIABLES mode, m, hist, vals, last
vars == <<mode, m, hist, vals, last>>

T0 == [k |-> "Inheritance", a |-> SE1(W("a")), b |-> IV("x")]
S0 == Sentence(T0, "Judgement", [k |-> "Present"], <<"1", "0.9">>)
S1 == Sentence(QV("z"), "Question", [k |-> "Eternal"], <<>>)
S2 == Sentence(W("a"), "Goal", [k |-> "Future"], <<"0.5", "1">>)                     \* confidence exactly 1, a future stamp
S3 == Sentence(OP("op"), "Quest", [k |-> "Fixed", n |-> "-1"], <<>>)
EnumStarts == {AsTerm(T0), AsTerm(W("a")), AsSentence(S0), AsSentence(S1), AsSentence(S2), AsSentence(S3), AsTask(<<>>, S0), AsTask(<<"0.5">>, S0),
               AsTask(<<"0.5", "0.75", "0.4">>, S1), AsTask(<<"1", "1">>, S2)}
LS(s) == [term |-> LexTree(s.t), punctuation |-> RE.punct[s.p],
          stamp |-> IF s.st.k = "Eternal" THEN "" ELSE RE.stamp_l \o RE.stamp[s.st.k] \o RE.stamp_r, truth |-> s.tr]
\* lexical stamps are raw text: fixed stamps with an explicit plus sign, a minus sign, leading zeros
LFixed(s, raw) == [LS(s) EXCEPT !.stamp = RE.stamp_l \o RE.stamp["Fixed"] \o raw \o RE.stamp_r]
LexStarts == {[kind |-> "term", v |-> LexTree(T0)], [kind |-> "sentence", v |-> LS(S0)], [kind |-> "sentence", v |-> LS(S1)], [kind |-> "sentence", v |-> LS(S2)],
              [kind |-> "sentence", v |-> LFixed(S1, "+5")], [kind |-> "sentence", v |-> LFixed(S2, "-007")], [kind |-> "task", v |-> [budget |-> <<"0.5">>, sentence |-> LFixed(S0, "+0")]],
              [kind |-> "task", v |-> [budget |-> <<>>, sentence |-> LS(S0)]], [kind |-> "task", v |-> [budget |-> <<"0.5">>, sentence |-> LS(S0)]]}
AllOps(mm) == Ops \cup {"reparse_" \o FmtName} \cup (IF mm = "enum" THEN {"std_try_term", "std_try_sentence", "std_try_task"} ELSE {})

\* ---- classification cases
Items == {"budget", "term", "punct", "stamp", "truth"}
\* the stamp of a case varies with its junction term, so that every stamp kind takes part
StampFor(t) == CASE t.k = "Word" -> [k |-> "Present"] [] t.k = "VariableIndependent" -> [k |-> "Future"] [] t.k = "VariableQuery" -> [k |-> "Past"]
                 [] t.k = "Inheritance" -> [k |-> "Fixed", n |-> "5"] [] OTHER -> [k |-> "Present"]
ItemToks(it, t) == CASE it = "budget" -> EndWith(BudgetToks(<<"0.5">>), "i") [] it = "term" -> EndWith(TermToks(t), "n")
                     [] it = "punct" -> T(F.punct["Judgement"], "t") [] it = "stamp" -> EndWith(StampToks(StampFor(t)), "t")
                     [] it = "truth" -> TruthToks(<<"1", "0.9">>)
Order5 == <<"budget", "term", "punct", "stamp", "truth">>
SubsetText(S, t, spaced) == LET toks == Cat([i \in 1..5 |-> IF Order5[i] \in S THEN ItemToks(Order5[i], t) ELSE <<>>])
                            IN Render(toks, AllSp(toks, IF spaced THEN 1 ELSE 0))
ExpectedKind(S) == IF {"budget", "term", "punct"} \subseteq S THEN "task" ELSE IF {"term", "punct"} \subseteq S THEN "sentence" ELSE "term"

Init == \/ /\ mode = "life" /\ m \in {"enum", "lexical"} /\ hist = <<>> /\ last = Res("init")
           /\ \E v \in (IF m = "enum" THEN EnumStarts ELSE LexStarts) : vals = <<v>>
        \/ /\ mode = "seed" /\ m = "enum" /\ hist = <<>> /\ vals = <<>> /\ last = Res("init")
Next == \/ /\ mode = "life" /\ Len(hist) < DEPTH
           /\ \E op \in AllOps(m) : LET r == Step(m, vals[Len(vals)], op) IN
                hist' = Append(hist, op) /\ vals' = Append(vals, r.n) /\ last' = r.res
           /\ UNCHANGED <<mode, m>>
        \/ /\ mode = "seed" /\ mode' = "classify"
           /\ \E S \in SUBSET Items : \E t \in Junctions : \E sp \in BOOLEAN : hist' = <<S, t, sp>>
           /\ UNCHANGED <<m, vals, last>>

\* ---- the equations of C15 as invariants over behaviours
Cur == vals[Len(vals)]
Prev(k) == vals[Len(vals) - k]
CastRoundTrip == (mode = "life" /\ Len(hist) >= 2 /\ hist[Len(hist) - 1] = "cast_to_task" /\ hist[Len(hist)] = "try_cast_to_sentence" /\ Prev(2).kind = "sentence")
                    => (last = Res("ok") /\ Cur = Prev(2))
TaskBackIffEmptyBudget == (mode = "life" /\ Len(hist) >= 1 /\ hist[Len(hist)] = "try_cast_to_sentence" /\ Prev(1).kind = "task")
                    => ((last = Res("ok")) <=> (BudgetOf(m, Prev(1).v) = <<>>)) /\ (last = Res("err") => Cur = Prev(1))
UnwrapMatchesOnly == (mode = "life" /\ Len(hist) >= 1 /\ hist[Len(hist)] \in {"try_into_term", "try_into_sentence", "try_into_task"})
                    => ((last = Res("ok")) <=> (hist[Len(hist)] = "try_into_" \o Prev(1).kind)) /\ Cur = Prev(1)
CompatibleIsCast == (mode = "life" /\ Len(hist) >= 1 /\ hist[Len(hist)] = "try_into_task_compatible" /\ Prev(1).kind = "sentence")
                    => Cur = Step(m, Prev(1), "cast_to_task").n
Emit ==
  /\ (mode = "life" /\ Len(hist) = DEPTH) =>
        PrintT(<<"CMD", ToJson([op |-> "lifecycle", model |-> m, fmt |-> FmtName, ops |-> hist,
                                v |-> IF m = "enum" THEN N2J(vals[1]) ELSE vals[1]])>>)
  /\ mode = "classify" =>
        PrintT(<<"CMD", ToJson([op |-> "pipe", fmt |-> FmtName, s |-> SubsetText(hist[1], hist[2], hist[3]),
                                classify |-> ExpectedKind(hist[1]), has_term |-> ("term" \in hist[1])])>>)
Spec == Init /\ [][Next]_vars
=============================================================================
