------------------------------- MODULE Text -------------------------------
(* Text as sequences of one-character strings. TLC treats a string as an atom, but Len and
   SubSeq work on strings, which is all that is needed to turn one into a sequence. *)
EXTENDS Sequences, Naturals, Integers, FiniteSets, TLC

Chars(s) == [i \in 1..Len(s) |-> SubSeq(s, i, i)]
Rng(s) == {s[i] : i \in 1..Len(s)}
Min2(a, b) == IF a < b THEN a ELSE b
Max2(a, b) == IF a > b THEN a ELSE b

\* concatenation of a sequence of sequences
RECURSIVE CatFrom(_, _)
CatFrom(seqs, i) == IF i > Len(seqs) THEN <<>> ELSE seqs[i] \o CatFrom(seqs, i + 1)
Cat(seqs) == CatFrom(seqs, 1)

\* join with a separator sequence
RECURSIVE JoinFrom(_, _, _)
JoinFrom(seqs, sep, i) == IF i > Len(seqs) THEN <<>>
                          ELSE (IF i > 1 THEN sep ELSE <<>>) \o seqs[i] \o JoinFrom(seqs, sep, i + 1)
Join(seqs, sep) == JoinFrom(seqs, sep, 1)

\* e[h+1 ..] starts with kw  (h is a 0-based cursor, as in the code)
StartsAt(e, h, kw) == /\ Len(e) >= h + Len(kw)
                      /\ \A i \in 1..Len(kw) : e[h + i] = kw[i]
EndsAt(e, r, kw) == /\ r >= Len(kw)                      \* e[.. r] ends with kw (r = exclusive right border, 0-based)
                    /\ \A i \in 1..Len(kw) : e[r - Len(kw) + i] = kw[i]
Slice(e, a, b) == SubSeq(e, a + 1, b)                    \* 0-based, end exclusive

Digits == {"0", "1", "2", "3", "4", "5", "6", "7", "8", "9"}
IsDigits(s) == Len(s) > 0 /\ \A i \in 1..Len(s) : s[i] \in Digits

RECURSIVE StripLeadingZeros(_)
StripLeadingZeros(s) == IF Len(s) > 1 /\ s[1] = "0" THEN StripLeadingZeros(Tail(s)) ELSE s

\* decimal comparison of two digit sequences without leading zeros: a <= b
DigitVal(c) == CASE c = "0" -> 0 [] c = "1" -> 1 [] c = "2" -> 2 [] c = "3" -> 3 [] c = "4" -> 4
                 [] c = "5" -> 5 [] c = "6" -> 6 [] c = "7" -> 7 [] c = "8" -> 8 [] c = "9" -> 9
RECURSIVE LexLeq(_, _, _)
LexLeq(a, b, i) == IF i > Len(a) THEN TRUE
                   ELSE IF DigitVal(a[i]) < DigitVal(b[i]) THEN TRUE
                   ELSE IF DigitVal(a[i]) > DigitVal(b[i]) THEN FALSE
                   ELSE LexLeq(a, b, i + 1)
DecLeq(a, b) == IF Len(a) # Len(b) THEN Len(a) < Len(b) ELSE LexLeq(a, b, 1)

\* sequence of chars back to something printable / comparable with a deserialised string is never
\* needed: strings from JSON are converted with Chars, never the other way round.
=============================================================================
