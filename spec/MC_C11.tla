------------------------------- MODULE MC_C11 -------------------------------
(* C11 design level: (a) the ASCII tables dumped from the code (enum and lexical) are exactly the
   published lexicon; (b) the grammar accepts the model formatter's ASCII text of every value with
   the value's kind and derives the lexical tree of the value.  Every value -- enum values and
   vocabulary-consistent lexical values incl. derived copulas and uninterpreted arities -- becomes
   an `ascii_out` command: the judge runs the grammar on the REAL string. *)
EXTENDS Peg, Sugar, EnumFormat, LexValues, Universe

CONSTANTS TIER, SEEDS, SEED
VARIABLES mode, n
ASSUME FmtName = "ascii"

\* ---- (a) lexicon
EnumLexiconOK ==
  LET r == RawE("ascii")  p == PublishedAscii IN
  /\ \A k \in AtomKinds : r.prefix[k] = p.prefix[k]
  /\ \A k \in ConnKinds : r.conn[k] = p.conn[k]
  /\ \A k \in CopKinds : r.cop[k] = p.cop[k]
  /\ \A k \in PunctKinds : r.punct[k] = p.punct[k]
  /\ \A k \in StampKinds : r.stamp[k] = p.stamp[k]
  /\ \A f \in {"comp_l", "comp_r", "sep", "se_l", "se_r", "si_l", "si_r", "st_l", "st_r", "stamp_l", "stamp_r",
               "truth_l", "truth_r", "truth_sep", "bud_l", "bud_r", "bud_sep"} : r[f] = p[f]
LexLexiconOK ==
  LET r == VocabAll.lex["ascii"]  p == PublishedAscii IN
  /\ PRng(r.prefixes) = {p.prefix[k] : k \in AtomKinds}
  /\ PRng(r.connecters) = {p.conn[k] : k \in ConnKinds}
  /\ PRng(r.copulas) = {p.cop[k] : k \in CopKinds}
  /\ PRng(r.punctuations) = {p.punct[k] : k \in PunctKinds}
  /\ {<<b[1], b[2]>> : b \in PRng(r.set_brackets_prefix_order)} \ {<<"", "">>} = {<<p.se_l, p.se_r>>, <<p.si_l, p.si_r>>}
  /\ {<<b[1], b[2]>> : b \in PRng(r.stamp_brackets_suffix_order)} =
        {<<"", p.stamp_l \o p.stamp[k] \o p.stamp_r>> : k \in {"Past", "Present", "Future"}} \cup {<<p.stamp_l \o p.stamp["Fixed"], p.stamp_r>>}
  /\ r.comp_l = p.comp_l /\ r.comp_r = p.comp_r /\ r.sep = p.sep /\ r.st_l = p.st_l /\ r.st_r = p.st_r
  /\ r.truth_l = p.truth_l /\ r.truth_r = p.truth_r /\ r.truth_sep = p.truth_sep
  /\ r.bud_l = p.bud_l /\ r.bud_r = p.bud_r /\ r.bud_sep = p.bud_sep

\* ---- (b) values
StampText(st) == CASE st.k = "Eternal" -> "" [] st.k = "Fixed" -> RE.stamp_l \o RE.stamp["Fixed"] \o st.n \o RE.stamp_r
                   [] OTHER -> RE.stamp_l \o RE.stamp[st.k] \o RE.stamp_r
LexSentence(s) == [term |-> LexTree(s.t), punctuation |-> RE.punct[s.p], stamp |-> StampText(s.st), truth |-> s.tr]
LexN(x) == CASE x.kind = "term" -> [kind |-> "term", v |-> LexTree(x.v)]
             [] x.kind = "sentence" -> [kind |-> "sentence", v |-> LexSentence(x.v)]
             [] x.kind = "task" -> [kind |-> "task", v |-> [budget |-> x.v.b, sentence |-> LexSentence(x.v.s)]]
\* names that end with '_' in front of every kind of following token, bare and inside every kind of parent
UnderscoreEnd ==
  LET X == {W("a_"), DV("b_"), OP("op_"), W("x-y_")}
      S == UNION {{[k |-> "Inheritance", a |-> x, b |-> W("b")], [k |-> "Implication", a |-> x, b |-> W("b")], [k |-> "Similarity", p |-> {x, W("b")}],
                   [k |-> "Inheritance", a |-> W("b"), b |-> x], [k |-> "Product", q |-> <<x, W("b")>>], [k |-> "SetExtension", s |-> {x}]} : x \in X}
  IN X \cup S \cup {SE1(t) : t \in S} \cup {[k |-> "Product", q |-> <<t, W("c")>>] : t \in S} \cup {[k |-> "Negation", a |-> t] : t \in S}
     \cup {[k |-> "Conjunction", s |-> {t, W("c")}] : t \in S}
EnumVals == {AsTerm(t) : t \in UnderscoreEnd} \cup {AsTerm(t) : t \in U1 \cup AtomsU0 \cup ImgWithLatePH \cup (IF TIER = "thorough" THEN U2rSet(0) ELSE PairCoverSet(0) \cup Sample(U2rSet(0), 40, SEED))}
            \cup (IF TIER = "thorough" THEN EnvelopeFullSet(0) ELSE EnvelopeQuickSet(0)) \cup RichEnvelopeSet(0)
\* lexical values the enum model cannot express: derived copulas, uninterpreted arities, long truth / budget lists
A1 == LAtom("", "a")
LexOnly ==
  {[kind |-> "term", v |-> LStatement(RE.cop[c], LexTree(s), LexTree(p))] : c \in Derived, s \in {W("a"), SE1(W("b")), IV("x")}, p \in {W("b"), OP("op")}}
  \cup {[kind |-> "term", v |-> LCompound(RE.conn[c], ts)] : c \in ConnKinds, ts \in {<<A1>>, <<A1, A1, A1>>, <<A1, LAtom("_", ""), LAtom("_", "")>>}}
  \cup {[kind |-> "sentence", v |-> [term |-> A1, punctuation |-> RE.punct[p], stamp |-> st, truth |-> tr]] :
          p \in PunctKinds, st \in {"", ":|:", ":!+137:"}, tr \in {<<>>, <<"1">>, <<"0.5", "0.5", "0.5">>, <<".9", "1.">>}}
  \cup {[kind |-> "task", v |-> [budget |-> b, sentence |-> [term |-> LCompound("&&", <<A1, A1>>), punctuation |-> ".", stamp |-> ":/:", truth |-> <<"1", "0.9">>]]] :
          b \in {<<>>, <<"0.5">>, <<"1", "1", "1", "1">>}}

Init == mode = "seed" /\ n \in 0..SEEDS
Next == /\ mode = "seed" /\ n > 0
        /\ \/ mode' = "enum" /\ n' \in Part(EnumVals, n, SEEDS)
           \/ mode' = "lex" /\ n' \in Part(LexOnly, n, SEEDS)

Lexicon == (mode = "seed" /\ n = 0) => EnumLexiconOK /\ LexLexiconOK
GrammarAccepts == mode = "enum" => LET r == Narsese(Format(n)) IN r.kind = n.kind /\ r.v = LexN(n).v
Emit == /\ mode = "enum" => PrintT(<<"CMD", ToJson([op |-> "ascii_out", v |-> N2J(n)])>>)
        /\ mode = "lex" => PrintT(<<"CMD", ToJson([op |-> "ascii_out", lv |-> n])>>)
Spec == Init /\ [][Next]_<<mode, n>>
=============================================================================
