------------------------------- MODULE Vocab -------------------------------
(* The format tables, dictionary orders and character classes DUMPED FROM THE CODE
   (nv dump-vocab), plus the orders in which the enum parser's source tests its keywords
   (those are part of the transcription, not data).  The format under study is chosen by
   the environment variable NV_FMT, so one TLC run looks at one format. *)
EXTENDS Text, Json, IOUtils

VocabAll == JsonDeserialize(IOEnv.NV_VOCAB)
FmtName == IOEnv.NV_FMT
FormatNames == <<"ascii", "latex", "han">>

\* ---------------------------------------------------------------- enum format (keywords as char sequences)
RawE(name) == VocabAll.enum[name]
MapChars(r, keys) == [k \in keys |-> Chars(r[k])]

AtomKinds == {"Word", "Placeholder", "VariableIndependent", "VariableDependent", "VariableQuery", "Interval", "Operator"}
ConnKinds == {"IntersectionExtension", "IntersectionIntension", "DifferenceExtension", "DifferenceIntension", "Product",
              "ImageExtension", "ImageIntension", "Conjunction", "Disjunction", "Negation", "ConjunctionSequential", "ConjunctionParallel"}
CopKinds == {"Inheritance", "Similarity", "Implication", "Equivalence", "Instance", "Property", "InstanceProperty",
             "ImplicationPredictive", "ImplicationConcurrent", "ImplicationRetrospective",
             "EquivalencePredictive", "EquivalenceConcurrent", "EquivalenceRetrospective"}
PunctKinds == {"Judgement", "Goal", "Question", "Quest"}
StampKinds == {"Fixed", "Past", "Present", "Future"}

EF(name) == LET r == RawE(name) IN
  [ space |-> Chars(r.space.parse), fspace |-> Chars(r.space.format_terms), ispace |-> Chars(r.space.format_items),
    prefix |-> MapChars(r.prefix, AtomKinds),
    compL |-> Chars(r.comp_l), compR |-> Chars(r.comp_r), sep |-> Chars(r.sep),
    seL |-> Chars(r.se_l), seR |-> Chars(r.se_r), siL |-> Chars(r.si_l), siR |-> Chars(r.si_r),
    conn |-> MapChars(r.conn, ConnKinds),
    stL |-> Chars(r.st_l), stR |-> Chars(r.st_r),
    cop |-> MapChars(r.cop, CopKinds),
    copulasFn |-> [i \in 1..Len(r.copulas_fn) |-> Chars(r.copulas_fn[i])],
    punct |-> MapChars(r.punct, PunctKinds),
    stampL |-> Chars(r.stamp_l), stampR |-> Chars(r.stamp_r),
    stamp |-> MapChars(r.stamp, StampKinds),
    truthL |-> Chars(r.truth_l), truthR |-> Chars(r.truth_r), truthSep |-> Chars(r.truth_sep),
    budL |-> Chars(r.bud_l), budR |-> Chars(r.bud_r), budSep |-> Chars(r.bud_sep) ]

F == EF(FmtName)

\* the order in which impl_enum/parser.rs TESTS its keywords (first match wins)
AtomOrder == <<"Placeholder", "VariableIndependent", "VariableDependent", "VariableQuery", "Interval", "Operator", "Word">>
ConnOrder == <<"Conjunction", "Disjunction", "Negation", "ConjunctionSequential", "ConjunctionParallel",
               "IntersectionExtension", "IntersectionIntension", "DifferenceExtension", "DifferenceIntension",
               "Product", "ImageExtension", "ImageIntension">>
CopOrder == <<"Inheritance", "Similarity", "Implication", "Equivalence", "Instance", "Property", "InstanceProperty",
              "ImplicationPredictive", "ImplicationConcurrent", "ImplicationRetrospective",
              "EquivalencePredictive", "EquivalenceConcurrent", "EquivalenceRetrospective">>
PunctOrder == <<"Judgement", "Goal", "Question", "Quest">>
StampOrder == <<"Fixed", "Past", "Present", "Future">>

\* ---------------------------------------------------------------- lexical format
CharsAll(seq) == [i \in 1..Len(seq) |-> Chars(seq[i])]
PairsAll(seq) == [i \in 1..Len(seq) |-> <<Chars(seq[i][1]), Chars(seq[i][2])>>]
LFof(name) == LET r == VocabAll.lex[name] IN
  [ fspace |-> Chars(r.space.format_terms), ispace |-> Chars(r.space.format_items), remove |-> r.space.remove,
    prefixes |-> CharsAll(r.prefixes),
    setBr |-> PairsAll(r.set_brackets_prefix_order), setBrSuffix |-> PairsAll(r.set_brackets_suffix_order),
    compL |-> Chars(r.comp_l), compR |-> Chars(r.comp_r), sep |-> Chars(r.sep),
    connecters |-> CharsAll(r.connecters),
    stL |-> Chars(r.st_l), stR |-> Chars(r.st_r),
    copulas |-> CharsAll(r.copulas),
    puncts |-> CharsAll(r.punctuations),
    truthL |-> Chars(r.truth_l), truthR |-> Chars(r.truth_r), truthSep |-> Chars(r.truth_sep),
    stampBr |-> PairsAll(r.stamp_brackets_suffix_order),
    budL |-> Chars(r.bud_l), budR |-> Chars(r.bud_r), budSep |-> Chars(r.bud_sep) ]
LF == LFof(FmtName)

\* ---------------------------------------------------------------- character classes (the code's own predicates)
Cls == VocabAll.classes[FmtName]
NameChars == Rng(Cls.atom_name)          \* impl_enum is_valid_atom_name
IdentChars == Rng(Cls.identifier)        \* impl_lexical is_identifier
LexSpaceChars == Rng(Cls.lex_space)
StampChars == Rng(Cls.stamp)
TruthChars == Rng(Cls.truth)
BudgetChars == Rng(Cls.budget)
Alphabet == Rng(VocabAll.alphabet)

UsizeMax == Chars(VocabAll.usize_max)
IsizeMax == Chars(VocabAll.isize_max)
IsizeMinAbs == Tail(Chars(VocabAll.isize_min))    \* digits of |isize::MIN|
=============================================================================
