------------------------------- MODULE MC_C16 -------------------------------
(* C16 design level: on the dumped markup constants the layout model renders every value of the
   universe to a normalised text, and the rendering is injective on the universe (complete
   pairwise check through cardinalities).  Every value becomes a rendering command. *)
EXTENDS Typst, Universe

CONSTANTS TIER, SEEDS, SEED
VARIABLES mode, n
\* the two ways of bracketing three operands under one constructor (a renderer that drops inner brackets merges them)
Reassoc == UNION {{[k |-> kd, a |-> [k |-> kd, a |-> W("a"), b |-> W("b")], b |-> W("c")], [k |-> kd, a |-> W("a"), b |-> [k |-> kd, a |-> W("b"), b |-> W("c")]]} : kd \in AsymBinKinds}
           \cup UNION {{[k |-> kd, q |-> <<[k |-> kd, q |-> <<W("a"), W("b")>>], W("c")>>], [k |-> kd, q |-> <<W("a"), [k |-> kd, q |-> <<W("b"), W("c")>>]>>],
                        [k |-> kd, q |-> <<W("a"), W("b"), W("c")>>]} : kd \in SeqKinds}
           \cup UNION {{[k |-> kd, s |-> {[k |-> kd, s |-> {W("a"), W("b")}], W("c")}], [k |-> kd, s |-> {W("a"), [k |-> kd, s |-> {W("b"), W("c")}]}],
                        [k |-> kd, s |-> {W("a"), W("b"), W("c")}]} : kd \in SetKinds}
           \cup UNION {{[k |-> kd, p |-> {[k |-> kd, p |-> {W("a"), W("b")}], W("c")}], [k |-> kd, p |-> {W("a"), [k |-> kd, p |-> {W("b"), W("c")}]}]} : kd \in SymStmtKinds}
           \cup {[k |-> "Negation", a |-> [k |-> "Negation", a |-> W("a")]], [k |-> "Negation", a |-> W("a")]}
TermU == Reassoc \cup U1 \cup AtomsU0 \cup ImgWithLatePH \cup (IF TIER = "thorough" THEN U2rSet(0) ELSE PairCoverSet(0) \cup Sample(U2rSet(0), 10, SEED))
AllVals == {AsTerm(t) : t \in TermU} \cup (IF TIER = "thorough" THEN EnvelopeFullSet(0) ELSE EnvelopeQuickSet(0)) \cup RichEnvelopeSet(0)

Init == mode = "seed" /\ n \in 0..SEEDS
Next == mode = "seed" /\ n > 0 /\ mode' = "case" /\ n' \in Part(AllVals, n, SEEDS)

TextNormalised == mode = "case" => Normalised(TyN(OrdN(n)))
\* complete pairwise injectivity on the finite universe, evaluated once (in the seed state 0)
Injective == (mode = "seed" /\ n = 0) => Cardinality({TyN(OrdN(v)) : v \in AllVals}) = Cardinality(AllVals)
Emit == mode = "case" => PrintT(<<"CMD", ToJson([op |-> "typst", v |-> N2J(n)])>>)
Spec == Init /\ [][Next]_<<mode, n>>
=============================================================================
