------------------------------- MODULE MC_C16 -------------------------------
(* C16 design level: on the dumped markup constants the layout model renders every value of the
   universe to a normalised text, and the rendering is injective on the universe (complete
   pairwise check through cardinalities).  Every value becomes a rendering command. *)
EXTENDS Typst, Universe

CONSTANTS TIER, SEEDS, SEED
VARIABLES mode, n
TermU == U1 \cup AtomsU0 \cup ImgWithLatePH \cup (IF TIER = "thorough" THEN U2rSet(0) ELSE Sample(U2rSet(0), 10, SEED))
AllVals == {AsTerm(t) : t \in TermU} \cup (IF TIER = "thorough" THEN EnvelopeFullSet(0) ELSE EnvelopeQuickSet(0)) \cup RichEnvelopeSet(0)

Init == mode = "seed" /\ n \in 0..SEEDS
Next == mode = "seed" /\ n > 0 /\ mode' = "case" /\ n' \in Part(AllVals, n, SEEDS)

TextNormalised == mode = "case" => Normalised(TyN(OrdN(n)))
\* complete pairwise injectivity on the finite universe, evaluated once (in the seed state 0)
Injective == (mode = "seed" /\ n = 0) => Cardinality({TyN(OrdN(v)) : v \in AllVals}) = Cardinality(AllVals)
Emit == mode = "case" => PrintT(<<"CMD", ToJson([op |-> "typst", v |-> N2J(n)])>>)
Spec == Init /\ [][Next]_<<mode, n>>
=============================================================================
