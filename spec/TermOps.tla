------------------------------- MODULE TermOps -------------------------------
(* C14: component access, category, capacity -- stated on the ORDERED projection of a term
   (J2O: unordered containers appear as the sequence in which the instance iterates), and M5,
   the ImageIterator, as an explicit state machine. *)
EXTENDS Values

None == [k |-> "None"]

\* ---- M5: ImageIterator { raw_components, now_index, placeholder_index }
IterInit(raw, ph) == [now |-> 0, ph |-> ph, rest |-> raw]
IterNext(st) ==
  IF st.now = st.ph
  THEN [out |-> PH, st |-> [st EXCEPT !.now = @ + 1]]
  ELSE IF st.rest = <<>> THEN [out |-> None, st |-> [st EXCEPT !.now = @ + 1]]
       ELSE [out |-> Head(st.rest), st |-> [st EXCEPT !.now = @ + 1, !.rest = Tail(@)]]
RECURSIVE IterDrain(_, _)
IterDrain(st, fuel) == IF fuel = 0 THEN <<>>
                       ELSE LET r == IterNext(st) IN IF r.out = None THEN <<>> ELSE <<r.out>> \o IterDrain(r.st, fuel - 1)
\* the reference meaning: the placeholder re-inserted at its recorded index
WithPlaceholder(q, i) == InsertAt(q, i + 1, PH)

\* ---- accessors on an ordered projection t (sets are sequences under field s)
OChildren(t) ==
  CASE IsAtom(t) -> <<t>>
    [] t.k \in SetKinds -> t.s
    [] t.k \in SeqKinds \cup ImgKinds -> t.q
    [] t.k = "Negation" -> <<t.a>>
    [] OTHER -> <<t.a, t.b>>
OWithPH(t) == IF t.k \in ImgKinds THEN WithPlaceholder(t.q, t.i) ELSE OChildren(t)
IsOrdered(t) == t.k \notin SetKinds

Bag(s) == [x \in Rng(s) |-> Cardinality({i \in 1..Len(s) : s[i] = x})]
SameOrdered(a, b) == a = b
SameUnordered(a, b) == Len(a) = Len(b) /\ Bag(a) = Bag(b)
Same(t, a, b) == IF IsOrdered(t) THEN SameOrdered(a, b) ELSE SameUnordered(a, b)

BaseNum(cap) == CASE cap \in {"Atom", "Unary"} -> 1 [] cap \in {"BinaryVec", "BinarySet"} -> 2 [] OTHER -> 3
=============================================================================
