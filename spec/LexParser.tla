------------------------------ MODULE LexParser ------------------------------
(* M8: the lexical formatter and the lexical parser (impl_lexical/{formatter,parser}.rs) on the
   dumped lexical tables and dictionary orders.
   parse_items works on a WINDOW [begin, right) into the whitespace-free character array: the
   budget is cut from the left, then truth, stamp and punctuation from the right, and what is
   left is given to the recursive term segmenters, each of which returns the LENGTH it consumed
   (the caller adds it to its own index).  C05's state invariants are about that window and
   those lengths.  (Repaired tree: closing brackets and separators are matched in full.) *)
EXTENDS LexValues

LErr == [r |-> "err"]
RECURSIVE LStr(_)
LStr(cs) == IF cs = <<>> THEN "" ELSE cs[1] \o LStr(Tail(cs))
Sl(e, a, b) == SubSeq(e, a + 1, b)                       \* e[a..b], 0-based, end exclusive
StartsW(e, kw) == Len(e) >= Len(kw) /\ SubSeq(e, 1, Len(kw)) = kw
EndsW(e, kw) == Len(e) >= Len(kw) /\ SubSeq(e, Len(e) - Len(kw) + 1, Len(e)) = kw

\* ---------------------------------------------------------------- formatter
RECURSIVE LFmtTerm(_)
LJoinComps(cs) == Join(cs, LF.sep \o LF.fspace)
LFmtTerm(x) ==
  CASE x.k = "Atom" -> Chars(x.prefix) \o Chars(x.name)
    [] x.k = "Compound" -> LF.compL \o Chars(x.connecter) \o LF.sep \o LF.fspace \o LJoinComps([i \in 1..Len(x.terms) |-> LFmtTerm(x.terms[i])]) \o LF.compR
    [] x.k = "Set" -> Chars(x.left) \o LJoinComps([i \in 1..Len(x.terms) |-> LFmtTerm(x.terms[i])]) \o Chars(x.right)
    [] x.k = "Statement" -> LF.stL \o LFmtTerm(x.subject) \o LF.fspace \o Chars(x.copula) \o LF.fspace \o LFmtTerm(x.predicate) \o LF.stR
LFmtNums(l, sep, r, nums) == l \o Join([i \in 1..Len(nums) |-> Chars(nums[i])], sep) \o r
LFmtTruth(tr) == IF tr = <<>> THEN <<>> ELSE LFmtNums(LF.truthL, LF.truthSep, LF.truthR, tr)
LFmtSentence(s) == LFmtTerm(s.term) \o Chars(s.punctuation)                       \* join_lest_multiple_separators
                   \o (IF s.stamp = "" THEN <<>> ELSE LF.ispace \o Chars(s.stamp))
                   \o (IF s.truth = <<>> THEN <<>> ELSE LF.ispace \o LFmtTruth(s.truth))
LFmtTask(t) == LFmtNums(LF.budL, LF.budSep, LF.budR, t.budget) \o LF.ispace \o LFmtSentence(t.sentence)
LFmt(n) == CASE n.kind = "term" -> LFmtTerm(n.v) [] n.kind = "sentence" -> LFmtSentence(n.v) [] n.kind = "task" -> LFmtTask(n.v)

\* ---------------------------------------------------------------- parser
Idealize(e) == SelectSeq(e, LAMBDA c : c \notin LexSpaceChars)
\* first entry of a dictionary (sequence of char sequences, in the order the code tries them) that is a prefix / suffix of e; 0 if none
FirstPrefix(dict, e) == LET S == {i \in 1..Len(dict) : StartsW(e, dict[i])} IN IF S = {} THEN 0 ELSE CHOOSE i \in S : \A j \in S : i <= j
FirstSuffix(dict, e) == LET S == {i \in 1..Len(dict) : EndsW(e, dict[i])} IN IF S = {} THEN 0 ELSE CHOOSE i \in S : \A j \in S : i <= j

\* segment_some_prefix: scan right from `start` until the right bracket; Ok(border after it) or failure
RECURSIVE ScanRight(_, _, _, _)
ScanRight(e, i, right, class) ==
  IF i >= Len(e) THEN [ok |-> FALSE, i |-> i]
  ELSE IF StartsW(Sl(e, i, Len(e)), right) THEN [ok |-> TRUE, i |-> i + Len(right)]
  ELSE IF e[i + 1] \in class THEN ScanRight(e, i + 1, right, class) ELSE [ok |-> FALSE, i |-> i]
\* segment_some_suffix: scan left from the end of `e` until the left bracket; Ok(left border) or failure
RECURSIVE ScanLeft(_, _, _, _)
ScanLeft(e, rb, left, class) ==
  IF EndsW(Sl(e, 0, rb), left) THEN [ok |-> TRUE, i |-> rb - Len(left)]
  ELSE IF rb = 0 THEN [ok |-> FALSE, i |-> 0]
  ELSE IF e[rb] \in class THEN ScanLeft(e, rb - 1, left, class) ELSE [ok |-> FALSE, i |-> rb]

\* str::trim_start_matches / trim_end_matches with a non-empty pattern
RECURSIVE TrimStartAll(_, _), TrimEndAll(_, _)
TrimStartAll(s, p) == IF p # <<>> /\ StartsW(s, p) THEN TrimStartAll(Sl(s, Len(p), Len(s)), p) ELSE s
TrimEndAll(s, p) == IF p # <<>> /\ EndsW(s, p) THEN TrimEndAll(Sl(s, 0, Len(s) - Len(p)), p) ELSE s
\* str::split(sep) then drop empty pieces
RECURSIVE SplitOn(_, _, _)
SplitOn(s, sep, cur) == IF s = <<>> THEN (IF cur = <<>> THEN <<>> ELSE <<LStr(cur)>>)
                        ELSE IF StartsW(s, sep) THEN (IF cur = <<>> THEN <<>> ELSE <<LStr(cur)>>) \o SplitOn(Sl(s, Len(sep), Len(s)), sep, <<>>)
                        ELSE SplitOn(Tail(s), sep, Append(cur, Head(s)))
NumList(text, l, r, sep) == SplitOn(TrimEndAll(TrimStartAll(text, l), r), sep, <<>>)

NoItem == [some |-> FALSE]
\* segment_budget: [some, v, border]  (border = index where the term starts)
SegBudget(e) ==
  IF ~StartsW(e, LF.budL) THEN NoItem
  ELSE LET r == ScanRight(e, Len(LF.budL), LF.budR, BudgetChars) IN
       IF ~r.ok THEN NoItem ELSE [some |-> TRUE, v |-> NumList(Sl(e, 0, r.i), LF.budL, LF.budR, LF.budSep), border |-> r.i]
\* segment_truth on the whole environment: [some, v, border] (border = left border of the truth)
SegTruth(e) ==
  IF ~EndsW(e, LF.truthR) THEN NoItem
  ELSE LET c == Sl(e, 0, Len(e) - Len(LF.truthR))
           r == ScanLeft(c, Len(c), LF.truthL, TruthChars)
       IN IF ~r.ok THEN NoItem ELSE [some |-> TRUE, v |-> NumList(Sl(e, r.i, Len(e)), LF.truthL, LF.truthR, LF.truthSep), border |-> r.i]
\* segment_stamp: the FIRST pair (in dictionary order) whose right part is a suffix decides; no second try
SegStamp(e) ==
  LET rights == [i \in 1..Len(LF.stampBr) |-> LF.stampBr[i][2]]
      k == FirstSuffix(rights, e)
  IN IF k = 0 THEN NoItem
     ELSE LET c == Sl(e, 0, Len(e) - Len(rights[k]))
              r == ScanLeft(c, Len(c), LF.stampBr[k][1], StampChars)
          IN IF ~r.ok THEN NoItem ELSE [some |-> TRUE, v |-> LStr(Sl(e, r.i, Len(e))), border |-> r.i]
SegPunct(e) == LET k == FirstSuffix(LF.puncts, e) IN
               IF k = 0 THEN NoItem ELSE [some |-> TRUE, v |-> LStr(LF.puncts[k]), border |-> Len(e) - Len(LF.puncts[k])]

\* ---- term segmenters: [ok, t, len]  (len = number of characters of `e` consumed)
TFail == [ok |-> FALSE, len |-> 0]
RECURSIVE NameEndL(_, _)
NameEndL(e, i) == IF i < Len(e) /\ e[i + 1] \in IdentChars /\ FirstPrefix(LF.copulas, Sl(e, i, Len(e))) = 0 THEN NameEndL(e, i + 1) ELSE i
SegAtom(e) ==
  LET k == FirstPrefix(LF.prefixes, e) IN
  IF k = 0 THEN TFail
  ELSE LET p == LF.prefixes[k]
           rb == NameEndL(e, Len(p))
       IN IF Len(p) >= rb /\ p = <<>> THEN TFail
          ELSE [ok |-> TRUE, t |-> LAtom(LStr(p), LStr(Sl(e, Len(p), rb))), len |-> rb]

RECURSIVE SegTerm(_), SegList(_, _, _, _)
\* the loop shared by sets and compounds: at `at`, either the right bracket ends the list, or an optional
\* separator is skipped and one more term is taken.  Returns [ok, ts, len]; LenOK is C05's invariant.
SegList(e, at, right, acc) ==
  IF StartsW(Sl(e, at, Len(e)), right) THEN [ok |-> TRUE, ts |-> acc, len |-> at + Len(right)]
  ELSE LET at2 == IF StartsW(Sl(e, at, Len(e)), LF.sep) THEN at + Len(LF.sep) ELSE at
           r == SegTerm(Sl(e, at2, Len(e)))
       IN IF ~r.ok THEN [ok |-> FALSE, ts |-> acc, len |-> 0] ELSE SegList(e, at2 + r.len, right, Append(acc, r.t))
SegSet(e) ==
  LET lefts == [i \in 1..Len(LF.setBr) |-> LF.setBr[i][1]]
      k == FirstPrefix(lefts, e)
  IN IF k = 0 THEN TFail
     ELSE LET l == LF.setBr[k][1]  r == LF.setBr[k][2]
              first == SegTerm(Sl(e, Len(l), Len(e)))                       \* a set has at least one element
          IN IF ~first.ok THEN TFail
             ELSE LET rest == SegList(e, Len(l) + first.len, r, <<first.t>>) IN
                  IF ~rest.ok THEN TFail ELSE [ok |-> TRUE, t |-> LSet(LStr(l), LStr(r), rest.ts), len |-> rest.len]
SegCompound(e) ==
  IF ~StartsW(e, LF.compL) THEN TFail
  ELSE LET k == FirstPrefix(LF.connecters, Sl(e, Len(LF.compL), Len(e))) IN
       IF k = 0 THEN TFail
       ELSE LET c == LF.connecters[k]
                rest == SegList(e, Len(LF.compL) + Len(c), LF.compR, <<>>)    \* zero components are accepted
            IN IF ~rest.ok THEN TFail ELSE [ok |-> TRUE, t |-> LCompound(LStr(c), rest.ts), len |-> rest.len]
SegStatement(e) ==
  IF ~StartsW(e, LF.stL) THEN TFail
  ELSE LET s == SegTerm(Sl(e, Len(LF.stL), Len(e))) IN
       IF ~s.ok THEN TFail
       ELSE LET cs == Len(LF.stL) + s.len
                k == FirstPrefix(LF.copulas, Sl(e, cs, Len(e)))
            IN IF k = 0 THEN TFail
               ELSE LET ps == cs + Len(LF.copulas[k])
                        p == SegTerm(Sl(e, ps, Len(e)))
                    IN IF ~p.ok THEN TFail
                       ELSE LET rs == ps + p.len IN
                            IF ~StartsW(Sl(e, rs, Len(e)), LF.stR) THEN TFail
                            ELSE [ok |-> TRUE, t |-> LStatement(LStr(LF.copulas[k]), s.t, p.t), len |-> rs + Len(LF.stR)]
SegTerm(e) == LET a == SegSet(e) IN IF a.ok THEN a ELSE
              LET b == SegCompound(e) IN IF b.ok THEN b ELSE
              LET c == SegStatement(e) IN IF c.ok THEN c ELSE SegAtom(e)

\* ---- parse_items + fold of the optional items
LexParseIdeal(e) ==
  LET bud == SegBudget(e)
      begin == IF bud.some THEN bud.border ELSE 0
      tr == SegTruth(e)
      rb1 == IF tr.some THEN tr.border ELSE Len(e)
      st == SegStamp(Sl(e, 0, rb1))
      rb2 == IF st.some THEN st.border ELSE rb1
      pu == SegPunct(Sl(e, 0, rb2))
      rb3 == IF pu.some THEN pu.border ELSE rb2
      windowOK == begin <= rb3                                   \* the slice env[begin..right] the code takes unconditionally
      term == IF begin < rb3 THEN SegTerm(Sl(e, begin, rb3)) ELSE TFail
  IN IF ~windowOK THEN [r |-> "panic", windowOK |-> FALSE]
     ELSE IF begin < rb3 /\ ~term.ok THEN [r |-> "err", windowOK |-> TRUE]
     ELSE IF begin >= rb3 THEN [r |-> "err", windowOK |-> TRUE]                                    \* no term: nothing can be folded
     ELSE LET sent == [term |-> term.t, punctuation |-> IF pu.some THEN pu.v ELSE "",
                       stamp |-> IF st.some THEN st.v ELSE "", truth |-> IF tr.some THEN tr.v ELSE <<>>]
          IN [r |-> "ok", windowOK |-> TRUE, lenOK |-> term.len <= rb3 - begin,
              v |-> IF pu.some /\ bud.some THEN [kind |-> "task", v |-> [budget |-> bud.v, sentence |-> sent]]
                    ELSE IF pu.some THEN [kind |-> "sentence", v |-> sent]
                    ELSE [kind |-> "term", v |-> term.t]]
\* the window of parse_items as the hook of the lexical parser reports it (event "cuts")
LexCuts(e) ==
  LET bud == SegBudget(e)
      tr == SegTruth(e)
      rb1 == IF tr.some THEN tr.border ELSE Len(e)
      st == SegStamp(Sl(e, 0, rb1))
      rb2 == IF st.some THEN st.border ELSE rb1
      pu == SegPunct(Sl(e, 0, rb2))
  IN [len |-> Len(e), begin |-> IF bud.some THEN bud.border ELSE 0, right |-> IF pu.some THEN pu.border ELSE rb2,
      budget |-> bud.some, truth |-> tr.some, stamp |-> st.some, punctuation |-> pu.some]
LexParse(text) == LexParseIdeal(Idealize(text))
LexParseTerm(text) == LET r == SegTerm(Idealize(text)) IN IF r.ok THEN [r |-> "ok", v |-> r.t] ELSE LErr
=============================================================================
