-------------------------------- MODULE J_C01 --------------------------------
(* Judge for C01 (and the kind clause of C15): the real formatter's output, parsed by the real
   parser, must be Ok and denote the value that was formatted.  The model parser is run on the
   same text; a different verdict is reported as DRIFT, never as a violation. *)
EXTENDS EnumParser, TLCExt

Obs == ndJsonDeserialize(IOEnv.NV_OBS)
VARIABLE l
V(b, tag) == IF b THEN {} ELSE {tag}

Viol(o) ==
  IF o.o.build # "ok" THEN {"build-" \o o.o.build}
  ELSE IF o.o.format # "ok" THEN {"format-panic"}
  ELSE V(J2N(o.o.back) = J2N(o.c.v), "harness-built-other-value")
       \cup V(o.o.entries_agree, "format-entry-points-disagree")
       \cup (IF o.o.r.r # "ok" THEN {"parse-" \o o.o.r.r}
             ELSE V(o.o.r.v.kind = o.c.v.kind, "kind-changed") \cup V(J2N(o.o.r.v) = J2N(o.c.v), "roundtrip-differs"))
Drift(o) ==
  IF o.o.build # "ok" \/ o.o.format # "ok" \/ "deep" \in DOMAIN o.c \/ "exotic" \in DOMAIN o.c THEN {}      \* (deep values: the model round trip is checked by MC_Deep itself)
  ELSE LET m == Parse(Chars(o.o.s)) IN
       IF m.r # o.o.r.r THEN {"model-verdict"}
       ELSE IF m.r = "ok" /\ m.v # J2N(o.o.r.v) THEN {"model-value"} ELSE {}

Init == l = 1
Next == /\ l <= Len(Obs)
        /\ l' = l + 1
        /\ LET v == Viol(Obs[l]) IN v = {} \/ PrintT(<<"BAD", Obs[l].id, v>>)
        /\ LET d == Drift(Obs[l]) IN d = {} \/ PrintT(<<"DRIFT", Obs[l].id, d>>)
Done == /\ TLCGet("stats").diameter - 1 = Len(Obs)
        /\ PrintT(<<"JUDGED", Len(Obs)>>)
=============================================================================
