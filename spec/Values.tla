------------------------------- MODULE Values -------------------------------
(* Canonical enum values.  Unordered compounds hold a TLA+ SET, symmetric statements an
   unordered pair (a set of one or two values); TLA+ equality on these records is the
   semantic equality the properties quantify over.  Numbers that do not fit TLC's 32-bit
   integers (intervals, fixed stamps) and all floats are decimal STRINGS.

   term     [k |-> "Word", n |-> "a"]              (all named atoms; Interval: n = decimal string)
            [k |-> "Placeholder"]
            [k |-> "SetExtension", s |-> {...}]    (7 set-like kinds)
            [k |-> "Product", q |-> <<...>>]       (2 sequence kinds)
            [k |-> "ImageExtension", i |-> 1, q |-> <<...>>]
            [k |-> "Negation", a |-> t]
            [k |-> "DifferenceExtension", a |-> t, b |-> u]   and the 6 asymmetric statements
            [k |-> "Similarity", p |-> {t, u}]     (3 symmetric statements)
   sentence [t |-> term, p |-> "Judgement", st |-> [k |-> "Fixed", n |-> "-1"], tr |-> <<"1","0.9">>]
   task     [b |-> <<"0.5">>, s |-> sentence]
   narsese  [kind |-> "term" | "sentence" | "task", v |-> ...]                                   *)
EXTENDS Text

NamedAtomKinds == {"Word", "VariableIndependent", "VariableDependent", "VariableQuery", "Interval", "Operator"}
SetKinds == {"SetExtension", "SetIntension", "IntersectionExtension", "IntersectionIntension",
             "Conjunction", "Disjunction", "ConjunctionParallel"}
SeqKinds == {"Product", "ConjunctionSequential"}
ImgKinds == {"ImageExtension", "ImageIntension"}
AsymBinKinds == {"DifferenceExtension", "DifferenceIntension", "Inheritance", "Implication",
                 "ImplicationPredictive", "ImplicationConcurrent", "ImplicationRetrospective", "EquivalencePredictive"}
SymStmtKinds == {"Similarity", "Equivalence", "EquivalenceConcurrent"}
StatementKinds == {"Inheritance", "Implication", "ImplicationPredictive", "ImplicationConcurrent",
                   "ImplicationRetrospective", "EquivalencePredictive"} \cup SymStmtKinds
CompoundKinds == SetKinds \cup SeqKinds \cup ImgKinds \cup {"Negation", "DifferenceExtension", "DifferenceIntension"}
AllTermKinds == NamedAtomKinds \cup {"Placeholder"} \cup CompoundKinds \cup StatementKinds

PH == [k |-> "Placeholder"]
W(n) == [k |-> "Word", n |-> n]
SeqOf(j) == [i \in 1..Len(j) |-> j[i]]

\* ---------------------------------------------------------------- JSON projection -> canonical value
RECURSIVE J2V(_)
J2V(j) ==
  CASE j.k \in NamedAtomKinds -> [k |-> j.k, n |-> j.n]
    [] j.k = "Placeholder" -> PH
    [] j.k \in SetKinds -> [k |-> j.k, s |-> {J2V(j.s[i]) : i \in 1..Len(j.s)}]
    [] j.k \in SeqKinds -> [k |-> j.k, q |-> [i \in 1..Len(j.q) |-> J2V(j.q[i])]]
    [] j.k \in ImgKinds -> [k |-> j.k, i |-> j.i, q |-> [i \in 1..Len(j.q) |-> J2V(j.q[i])]]
    [] j.k = "Negation" -> [k |-> j.k, a |-> J2V(j.a)]
    [] j.k \in AsymBinKinds -> [k |-> j.k, a |-> J2V(j.a), b |-> J2V(j.b)]
    [] j.k \in SymStmtKinds -> [k |-> j.k, p |-> {J2V(j.a), J2V(j.b)}]

\* the projection with stored order kept (sets as sequences in iteration order); used by C14
RECURSIVE J2O(_)
J2O(j) ==
  CASE j.k \in NamedAtomKinds -> [k |-> j.k, n |-> j.n]
    [] j.k = "Placeholder" -> PH
    [] j.k \in SetKinds -> [k |-> j.k, s |-> [i \in 1..Len(j.s) |-> J2O(j.s[i])]]
    [] j.k \in SeqKinds -> [k |-> j.k, q |-> [i \in 1..Len(j.q) |-> J2O(j.q[i])]]
    [] j.k \in ImgKinds -> [k |-> j.k, i |-> j.i, q |-> [i \in 1..Len(j.q) |-> J2O(j.q[i])]]
    [] j.k = "Negation" -> [k |-> j.k, a |-> J2O(j.a)]
    [] OTHER -> [k |-> j.k, a |-> J2O(j.a), b |-> J2O(j.b)]

J2Sentence(j) == [t |-> J2V(j.t), p |-> j.p, st |-> j.st, tr |-> SeqOf(j.tr)]
J2Task(j) == [b |-> SeqOf(j.b), s |-> J2Sentence(j.s)]
J2N(j) == CASE j.kind = "term" -> [kind |-> "term", v |-> J2V(j.v)]
            [] j.kind = "sentence" -> [kind |-> "sentence", v |-> J2Sentence(j.v)]
            [] j.kind = "task" -> [kind |-> "task", v |-> J2Task(j.v)]

\* canonical value -> recipe the harness can build (symmetric pair back to a/b; sets stay sets:
\* ToJson writes a set as an array)
RECURSIVE V2J(_)
V2J(v) ==
  CASE v.k \in NamedAtomKinds \cup {"Placeholder"} -> v
    [] v.k \in SetKinds -> [k |-> v.k, s |-> {V2J(x) : x \in v.s}]
    [] v.k \in SeqKinds -> [k |-> v.k, q |-> [i \in 1..Len(v.q) |-> V2J(v.q[i])]]
    [] v.k \in ImgKinds -> [k |-> v.k, i |-> v.i, q |-> [i \in 1..Len(v.q) |-> V2J(v.q[i])]]
    [] v.k = "Negation" -> [k |-> v.k, a |-> V2J(v.a)]
    [] v.k \in AsymBinKinds -> [k |-> v.k, a |-> V2J(v.a), b |-> V2J(v.b)]
    [] v.k \in SymStmtKinds -> LET x == CHOOSE x \in v.p : TRUE
                                    y == IF Cardinality(v.p) = 1 THEN x ELSE CHOOSE y \in v.p : y # x
                                IN [k |-> v.k, a |-> V2J(x), b |-> V2J(y)]
N2J(n) == CASE n.kind = "term" -> [kind |-> "term", v |-> V2J(n.v)]
            [] n.kind = "sentence" -> [kind |-> "sentence", v |-> [n.v EXCEPT !.t = V2J(@)]]
            [] n.kind = "task" -> [kind |-> "task", v |-> [n.v EXCEPT !.s.t = V2J(@)]]

\* ---------------------------------------------------------------- constructors with the documented sugar (C10)
SE1(x) == [k |-> "SetExtension", s |-> {x}]
SI1(x) == [k |-> "SetIntension", s |-> {x}]
MkStatement(kind, s, p) ==
  CASE kind = "Instance" -> [k |-> "Inheritance", a |-> SE1(s), b |-> p]
    [] kind = "Property" -> [k |-> "Inheritance", a |-> s, b |-> SI1(p)]
    [] kind = "InstanceProperty" -> [k |-> "Inheritance", a |-> SE1(s), b |-> SI1(p)]
    [] kind = "EquivalenceRetrospective" -> [k |-> "EquivalencePredictive", a |-> p, b |-> s]
    [] kind \in SymStmtKinds -> [k |-> kind, p |-> {s, p}]
    [] OTHER -> [k |-> kind, a |-> s, b |-> p]

\* position (1-based) of the first placeholder of a component list, 0 if none
FirstPH(c) == IF \A i \in 1..Len(c) : c[i] # PH THEN 0
              ELSE CHOOSE i \in 1..Len(c) : c[i] = PH /\ \A j \in 1..(i - 1) : c[j] # PH
WithoutAt(c, p) == SubSeq(c, 1, p - 1) \o SubSeq(c, p + 1, Len(c))
InsertAt(c, p, x) == SubSeq(c, 1, p - 1) \o <<x>> \o SubSeq(c, p, Len(c))    \* x becomes element p (1-based)
MkImage(kind, c) == LET p == FirstPH(c) IN [k |-> kind, i |-> p - 1, q |-> WithoutAt(c, p)]

\* ---------------------------------------------------------------- structure
IsAtom(v) == v.k \in NamedAtomKinds \cup {"Placeholder"}
IsCompound(v) == v.k \in CompoundKinds
IsStatement(v) == v.k \in StatementKinds
Category(v) == IF IsAtom(v) THEN "Atom" ELSE IF IsCompound(v) THEN "Compound" ELSE "Statement"
Capacity(v) == CASE IsAtom(v) -> "Atom"
                 [] v.k = "Negation" -> "Unary"
                 [] v.k \in AsymBinKinds -> "BinaryVec"
                 [] v.k \in SymStmtKinds -> "BinarySet"
                 [] v.k \in SeqKinds \cup ImgKinds -> "Vec"
                 [] v.k \in SetKinds -> "Set"

\* direct sub-terms as a set (placeholder of an image not included)
Children(v) == CASE IsAtom(v) -> {}
                 [] v.k \in SetKinds -> v.s
                 [] v.k \in SeqKinds \cup ImgKinds -> Rng(v.q)
                 [] v.k = "Negation" -> {v.a}
                 [] v.k \in AsymBinKinds -> {v.a, v.b}
                 [] v.k \in SymStmtKinds -> v.p
RECURSIVE Depth(_)
Depth(v) == IF IsAtom(v) THEN 0
            ELSE LET ds == {Depth(c) : c \in Children(v)} IN
                 1 + (IF ds = {} THEN 0 ELSE CHOOSE d \in ds : \A e \in ds : e <= d)

\* ---------------------------------------------------------------- numbers as strings
\* a float string as Rust prints it: digits, optional fraction; in [0,1] iff "0", "0.xxx" or "1"
InUnit(s) == LET c == Chars(s) IN
  \/ s = "0" \/ s = "1" \/ s = "-0"
  \/ (Len(c) >= 3 /\ c[1] = "0" /\ c[2] = "." /\ \A i \in 3..Len(c) : c[i] \in Digits)

\* ---------------------------------------------------------------- well-formedness of RESULTS (C12)
RECURSIVE WFParsedTerm(_), WFFoldedTerm(_)
\* what the enum parser may return: ranges, image index, non-empty names, non-empty compounds, arity
WFParsedTerm(v) ==
  CASE v.k = "Placeholder" -> TRUE
    [] v.k = "Interval" -> IsDigits(Chars(v.n))
    [] v.k \in NamedAtomKinds -> v.n # ""
    [] v.k \in SetKinds -> v.s # {} /\ \A x \in v.s : WFParsedTerm(x)
    [] v.k \in SeqKinds -> Len(v.q) > 0 /\ \A i \in 1..Len(v.q) : WFParsedTerm(v.q[i])
    [] v.k \in ImgKinds -> v.i <= Len(v.q) /\ \A i \in 1..Len(v.q) : WFParsedTerm(v.q[i])
    [] v.k = "Negation" -> WFParsedTerm(v.a)
    [] v.k \in AsymBinKinds -> WFParsedTerm(v.a) /\ WFParsedTerm(v.b)
    [] v.k \in SymStmtKinds -> \A x \in v.p : WFParsedTerm(x)
\* what fold may return: image index only (names may be empty, compounds may be empty; DESIGN §9 d)
WFFoldedTerm(v) ==
  CASE IsAtom(v) -> TRUE
    [] v.k \in ImgKinds -> v.i <= Len(v.q) /\ \A i \in 1..Len(v.q) : WFFoldedTerm(v.q[i])
    [] OTHER -> \A x \in Children(v) : WFFoldedTerm(x)
WFNumbers(n) == CASE n.kind = "term" -> TRUE
                  [] n.kind = "sentence" -> \A i \in 1..Len(n.v.tr) : InUnit(n.v.tr[i])
                  [] n.kind = "task" -> (\A i \in 1..Len(n.v.s.tr) : InUnit(n.v.s.tr[i])) /\ (\A i \in 1..Len(n.v.b) : InUnit(n.v.b[i]))
TermOfN(n) == CASE n.kind = "term" -> n.v [] n.kind = "sentence" -> n.v.t [] n.kind = "task" -> n.v.s.t
WFParsed(n) == WFNumbers(n) /\ WFParsedTerm(TermOfN(n))
WFFolded(n) == WFNumbers(n) /\ WFFoldedTerm(TermOfN(n))
=============================================================================
