-------------------------------- MODULE J_C08 --------------------------------
(* Judge for C08: parse_multi against fresh parses, position by position. *)
EXTENDS EnumParser, LexValues, TLCExt

Obs == ndJsonDeserialize(IOEnv.NV_OBS)
VARIABLE l
V(b, tag) == IF b THEN {} ELSE {tag}

\* both Err, or both Ok with semantically equal values
Sim(x, y) == IF x.r = "ok" /\ y.r = "ok" THEN J2N(x.v) = J2N(y.v) ELSE x.r = "err" /\ y.r = "err"
SimL(x, y) == IF x.r = "ok" /\ y.r = "ok" THEN J2LN(x.v) = J2LN(y.v) ELSE x.r = "err" /\ y.r = "err"

Viol(o) ==
  LET ob == o.o  k == Len(ob.inputs) IN
  IF ob.multi_panic THEN {"parse-multi-panic"} ELSE
  V(Len(ob.multi) = k, "result-count")
  \cup UNION {V(Sim(ob.multi[i], ob.alone[i]), "multi-vs-alone") : i \in 1..Min2(k, Len(ob.multi))}
  \cup UNION {V(Sim(ob.twice[i], ob.alone[i]), "twice-differs") : i \in 1..k}
  \cup UNION {V(Sim(ob.chars[i], ob.alone[i]), "chars-vs-str") : i \in 1..k}
  \cup UNION {V(SimL(ob.lex_seq[i], ob.lex_again[i]), "lexical-history") : i \in 1..k}
Drift(o) == UNION {LET m == Parse(Chars(o.o.inputs[i])) a == o.o.alone[i] IN
                   IF m.r # a.r \/ (m.r = "ok" /\ MaskN(m.v, m.v) # MaskN(J2N(a.v), m.v)) THEN {"model"} ELSE {} : i \in 1..Len(o.o.inputs)}

Init == l = 1
Next == /\ l <= Len(Obs)
        /\ l' = l + 1
        /\ LET v == Viol(Obs[l]) IN v = {} \/ PrintT(<<"BAD", Obs[l].id, v>>)
        /\ LET d == Drift(Obs[l]) IN d = {} \/ PrintT(<<"DRIFT", Obs[l].id, d>>)
Done == /\ TLCGet("stats").diameter - 1 = Len(Obs)
        /\ PrintT(<<"JUDGED", Len(Obs)>>)
=============================================================================
