------------------------------- MODULE MC_C14 -------------------------------
(* C14 design level: (a) M5, the ImageIterator, explored as a state machine for every (n, index);
   (b) the accessor laws on the model's own values; and emission of the commands that put the
   same questions to the real code. *)
EXTENDS TermOps, LexValues, Universe

CONSTANTS MAXN, TIER
VARIABLES mode, x, it, outs

vars == <<mode, x, it, outs>>
Raw(n) == [j \in 1..n |-> W("c" \o ToString(j - 1))]

\* quick: U1 + derived shapes; thorough adds the depth-2 universe
\* unordered compounds whose elements feed the same hash input (same name under several atom kinds, a term and its negation,
\* the same components under two constructors) and images longer than the exhaustive universe reaches
Colliding == {[k |-> kd, s |-> S] : kd \in {"SetExtension", "Conjunction", "IntersectionIntension"},
              S \in {{W("go"), OP("go")}, {IV("x"), DV("x"), QV("x")}, {W("a"), [k |-> "Negation", a |-> W("a")]},
                     {[k |-> "Product", q |-> <<W("a"), W("b")>>], [k |-> "ConjunctionSequential", q |-> <<W("a"), W("b")>>]},
                     {W("a"), SE1(W("a")), SI1(W("a"))}}}
LongImages == {[k |-> kd, i |-> i, q |-> q] : kd \in ImgKinds, i \in 0..5,
               q \in {<<W("a"), W("b"), W("c")>>, <<W("a"), W("b"), W("c"), IV("x")>>, <<W("a"), W("b"), W("c"), IV("x"), W("e")>>}}
              \cap {v \in [k : ImgKinds, i : 0..5, q : {<<W("a"), W("b"), W("c")>>, <<W("a"), W("b"), W("c"), IV("x")>>, <<W("a"), W("b"), W("c"), IV("x"), W("e")>>}] : v.i <= Len(v.q)}
DupImages == {[k |-> kd, i |-> i, q |-> q] : kd \in ImgKinds, i \in 0..2,
              q \in {<<W("a"), W("a")>>, <<W("a"), W("a"), W("b")>>, <<W("b"), W("a"), W("a")>>, <<W("a"), W("a"), W("a")>>}}
             \cup {[k |-> kd, q |-> <<W("a"), W("a"), W("b"), W("b")>>] : kd \in SeqKinds}
TermCases == DupImages \cup U1 \cup AtomsU0 \cup ImgWithLatePH \cup Colliding \cup LongImages \cup (IF TIER = "thorough" THEN U2rSet(0) ELSE PairCoverSet(0) \cup {RepOf(kd) : kd \in CompoundKinds \cup StatementKinds})

Init == \/ /\ mode = "iter" /\ \E n \in 0..MAXN : \E i \in 0..(n + 2) : x = [n |-> n, i |-> i] /\ it = IterInit(Raw(n), i)
           /\ outs = <<>>
        \/ /\ mode = "seed" /\ x \in 1..8 /\ it = 0 /\ outs = <<>>
Next == \/ /\ mode = "iter" /\ Len(outs) < x.n + 4
           /\ LET r == IterNext(it) IN it' = r.st /\ outs' = Append(outs, r.out)
           /\ UNCHANGED <<mode, x>>
        \/ /\ mode = "seed"                            \* spread the universe over Next so that workers share it
           /\ mode' = "term" /\ \E v \in TermCases : x' = v
           /\ UNCHANGED <<it, outs>>

\* ---- M5 invariants: for a legal index the outputs are a prefix of "placeholder re-inserted", then None forever
Expected(n, i) == WithPlaceholder(Raw(n), i)
IterPrefix == (mode = "iter" /\ x.i <= x.n) =>
                 \A j \in 1..Len(outs) : outs[j] = (IF j <= x.n + 1 THEN Expected(x.n, x.i)[j] ELSE None)
IterOnePlaceholder == (mode = "iter" /\ x.i <= x.n /\ Len(outs) >= x.n + 1) =>
                         Cardinality({j \in 1..Len(outs) : outs[j] = PH}) = 1
\* ---- the integer abstraction of M5 that Apalache proves inductive for unbounded n (spec/apalache/IterInd.tla):
\* on every explored state the concrete iterator maps to an abstract state that satisfies the inductive invariant
AbstractionOK == (mode = "iter" /\ x.i <= x.n) =>
  LET now == it.now  taken == x.n - Len(it.rest)
      phOut == \E j \in 1..Len(outs) : outs[j] = PH
      nones == Cardinality({j \in 1..Len(outs) : outs[j] = None})
  IN /\ now = Len(outs)
     /\ phOut = (now > x.i)
     /\ (now <= x.n + 1 => (nones = 0 /\ taken = now - (IF now > x.i THEN 1 ELSE 0)))
     /\ (now > x.n + 1 => (taken = x.n /\ nones = now - (x.n + 1)))
\* ---- accessor laws on the model's values (ordered view = any sequence order of the sets)
RECURSIVE Ord(_)
Ord(v) == CASE IsAtom(v) -> v
            [] v.k \in SetKinds -> [k |-> v.k, s |-> LET q == SeqOfSet(v.s) IN [j \in 1..Len(q) |-> Ord(q[j])]]
            [] v.k \in SeqKinds -> [k |-> v.k, q |-> [j \in 1..Len(v.q) |-> Ord(v.q[j])]]
            [] v.k \in ImgKinds -> [k |-> v.k, i |-> v.i, q |-> [j \in 1..Len(v.q) |-> Ord(v.q[j])]]
            [] v.k = "Negation" -> [k |-> v.k, a |-> Ord(v.a)]
            [] v.k \in SymStmtKinds -> LET q == SeqOfSet(v.p) IN [k |-> v.k, a |-> Ord(q[1]), b |-> Ord(q[IF Len(q) = 1 THEN 1 ELSE 2])]
            [] OTHER -> [k |-> v.k, a |-> Ord(v.a), b |-> Ord(v.b)]
AccessorLaws == mode = "term" =>
  LET t == Ord(x) IN
  /\ Len(OWithPH(t)) = Len(OChildren(t)) + (IF t.k \in ImgKinds THEN 1 ELSE 0)
  /\ (t.k \in ImgKinds => OWithPH(t)[t.i + 1] = PH /\ WithoutAt(OWithPH(t), t.i + 1) = OChildren(t))
  /\ (t.k \in ImgKinds => IterDrain(IterInit(t.q, t.i), Len(t.q) + 3) = OWithPH(t))     \* the iterator agrees with the insertion
  /\ Cardinality({c \in {"Atom", "Compound", "Statement"} : Category(x) = c}) = 1
  /\ (Capacity(x) \in {"Atom", "Unary"} => Len(OChildren(t)) = 1)
  /\ (Capacity(x) \in {"BinaryVec", "BinarySet"} => Len(OChildren(t)) = 2)
  /\ LCategory(LexTree(x)) = Category(x)

Emit ==
  /\ (mode = "iter" /\ Len(outs) = x.n + 4) =>
        PrintT(<<"CMD", ToJson([op |-> "image_iter", n |-> x.n, i |-> x.i, steps |-> x.n + 4])>>)
  /\ (mode = "term") =>
        /\ PrintT(<<"CMD", ToJson([op |-> "accessors", t |-> V2J(x)])>>)
        /\ PrintT(<<"CMD", ToJson([op |-> "lex_accessors", fmt |-> FmtName, t |-> LexTree(x)])>>)
Spec == Init /\ [][Next]_vars
=============================================================================
