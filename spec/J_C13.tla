-------------------------------- MODULE J_C13 --------------------------------
(* Judge for C13: constructor outcomes, stored bits, accessor panics and the evidence-number API
   of the real code against Numbers.tla, on concrete floats of each class. *)
EXTENDS Numbers, Json, IOUtils, TLCExt

Obs == ndJsonDeserialize(IOEnv.NV_OBS)
VARIABLE l
V(b, tag) == IF b THEN {} ELSE {tag}
Has(o, f) == f \in DOMAIN o

\* observed constructor result r against the model's m; stored bits must be the supplied bits
CtorOK(r, m, inbits) ==
  /\ r.r = m.r
  /\ (m.r = "ok" => r.bits = SubSeq(inbits, 1, Len(m.stored)))
AccOK(o, f, n, j) == IF Has(o, f) THEN o[f].r = Access(n, j) /\ (o[f].r = "ok" => o[f].bits = o.in_bits[j]) ELSE FALSE

Viol(o) ==
  LET fs == [i \in 1..Len(o.c.cls) |-> o.c.cls[i]]
      ob == o.o
      tt == TryFromFloats("truth", fs)
      tb == TryFromFloats("budget", fs)
  IN V(Len(ob.in_bits) = Len(fs), "harness-arity")
     \cup V(CtorOK(ob.truth_try, tt, ob.in_bits), "truth-try")
     \cup V(CtorOK(ob.budget_try, tb, ob.in_bits), "budget-try")
     \cup V(ob.truth_try_lazy = ob.truth_try /\ ob.budget_try_lazy = ob.budget_try, "constructor-depends-on-the-iterator-kind")
     \cup V(CtorOK(ob.truth_new, New("truth", fs), ob.in_bits), "truth-new")
     \cup V(CtorOK(ob.budget_new, New("budget", fs), ob.in_bits), "budget-new")
     \cup V((ob.truth_new.r = "panic") <=> (ob.truth_try.r = "err"), "truth-panic-iff-err")
     \cup V((ob.budget_new.r = "panic") <=> (ob.budget_try.r = "err"), "budget-panic-iff-err")
     \cup (IF tt.r = "ok" THEN
             V(AccOK(ob, "truth_f", Len(tt.stored), 1) /\ AccOK(ob, "truth_c", Len(tt.stored), 2)
               /\ AccOK(ob, "truth_get_f", Len(tt.stored), 1) /\ AccOK(ob, "truth_get_c", Len(tt.stored), 2), "truth-accessors")
           ELSE V(~Has(ob, "truth_f"), "truth-built-despite-invalid"))
     \cup (IF tb.r = "ok" THEN
             V(/\ AccOK(ob, "budget_p", Len(tb.stored), 1) /\ AccOK(ob, "budget_d", Len(tb.stored), 2) /\ AccOK(ob, "budget_q", Len(tb.stored), 3)
               /\ AccOK(ob, "budget_priority", Len(tb.stored), 1) /\ AccOK(ob, "budget_duality", Len(tb.stored), 2)
               /\ AccOK(ob, "budget_quality", Len(tb.stored), 3)
               /\ ob.budget_is_empty = (Len(tb.stored) = 0), "budget-accessors")
           ELSE V(~Has(ob, "budget_p"), "budget-built-despite-invalid"))
     \cup (IF Len(fs) = 0 THEN {} ELSE
             V(ob.en_is_valid = IsValid(fs[1]), "is-valid")
             \cup V(ob.en_try.r = TryValidate(fs[1]) /\ (ob.en_try.r = "ok" => ob.en_try.bits = ob.in_bits[1]), "try-validate")
             \cup V(ob.en_validate.r = Validate(fs[1]) /\ (ob.en_validate.r = "ok" => ob.en_validate.bits = ob.in_bits[1]), "validate")
             \cup V(IsValid(fs[1]) => \A j \in 1..Len(ob.en_roots) : "valid" \in DOMAIN ob.en_roots[j] /\ ob.en_roots[j].valid /\ ob.en_roots[j].in_unit, "root-of-valid-is-valid")
             \cup V(ob.en_zero_one = <<"0000000000000000", "3ff0000000000000">>, "zero-one"))

Init == l = 1
Next == /\ l <= Len(Obs)
        /\ l' = l + 1
        /\ LET v == Viol(Obs[l]) IN v = {} \/ PrintT(<<"BAD", Obs[l].id, v>>)
Done == /\ TLCGet("stats").diameter - 1 = Len(Obs)
        /\ PrintT(<<"JUDGED", Len(Obs)>>)
=============================================================================
