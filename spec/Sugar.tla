-------------------------------- MODULE Sugar --------------------------------
(* C10: what the surface sugar MEANS, stated independently of both pipelines.
   A surface tree is a canonical value in which, additionally,
     - a statement may carry any of the 13 copulas with explicit operands  [k |-> "Instance", a |-> S, b |-> P]
     - a set-like compound or an image may be given as the ordered component list it is written with
       [k |-> "ImageExtension", c |-> <<t1, PH, t2, PH>>]   [k |-> "Conjunction", c |-> <<a, b, a>>]
     - an interval / placeholder may carry the raw text that follows its prefix
       [k |-> "IntervalRaw", raw |-> "0007"]   [k |-> "PlaceholderRaw", raw |-> "abc"]            *)
EXTENDS Values, Vocab

RECURSIVE SugarStr(_)
SugarStr(cs) == IF cs = <<>> THEN "" ELSE cs[1] \o SugarStr(Tail(cs))
\* an interval atom denotes the decimal value of its digits
DecimalValue(raw) == LET c == Chars(raw) IN SugarStr(StripLeadingZeros(c))

RECURSIVE Desugar(_)
DesugarAll(q) == [i \in 1..Len(q) |-> Desugar(q[i])]
Desugar(x) ==
  CASE x.k = "IntervalRaw" -> [k |-> "Interval", n |-> DecimalValue(x.raw)]
    [] x.k = "PlaceholderRaw" -> PH                                          \* the same placeholder whatever follows its prefix
    [] x.k \in NamedAtomKinds \cup {"Placeholder"} -> x
    [] x.k \in SetKinds -> [k |-> x.k, s |-> IF "c" \in DOMAIN x THEN Rng(DesugarAll(x.c)) ELSE {Desugar(e) : e \in x.s}]
    [] x.k \in SeqKinds -> [k |-> x.k, q |-> DesugarAll(x.q)]
    [] x.k \in ImgKinds -> IF "c" \in DOMAIN x
                           THEN MkImage(x.k, DesugarAll(x.c))                \* index = position of the FIRST placeholder, the rest in order
                           ELSE [k |-> x.k, i |-> x.i, q |-> DesugarAll(x.q)]
    [] x.k = "Negation" -> [k |-> x.k, a |-> Desugar(x.a)]
    [] x.k \in {"DifferenceExtension", "DifferenceIntension"} -> [k |-> x.k, a |-> Desugar(x.a), b |-> Desugar(x.b)]
    [] x.k \in CopKinds -> IF "p" \in DOMAIN x THEN [k |-> x.k, p |-> {Desugar(e) : e \in x.p}]
                           ELSE MkStatement(x.k, Desugar(x.a), Desugar(x.b))  \* {-- --] {-] wrap in one-element sets, <\> swaps into </>
\* a fixed stamp denotes the signed decimal value of its text: an explicit "+", leading zeros and "-0" are surface forms
SignedValue(raw) == LET c == Chars(raw)
                        neg == c[1] = "-"
                        d == StripLeadingZeros(IF c[1] \in {"+", "-"} THEN Tail(c) ELSE c)
                    IN SugarStr((IF neg /\ d # <<"0">> THEN <<"-">> ELSE <<>>) \o d)
DesugarStamp(st) == IF st.k = "Fixed" THEN [st EXCEPT !.n = SignedValue(@)] ELSE st
DesugarN(n) == CASE n.kind = "term" -> [kind |-> "term", v |-> Desugar(n.v)]
                 [] n.kind = "sentence" -> [kind |-> "sentence", v |-> [n.v EXCEPT !.t = Desugar(@), !.st = DesugarStamp(@)]]
                 [] n.kind = "task" -> [kind |-> "task", v |-> [n.v EXCEPT !.s.t = Desugar(@), !.s.st = DesugarStamp(@)]]

\* ---------------------------------------------------------------- the sugar universe
Derived == {"Instance", "Property", "InstanceProperty", "EquivalenceRetrospective"}
Stmt(kind, a, b) == [k |-> kind, a |-> a, b |-> b]
\* component lists with one or two placeholders at every position (length 1..3)
ImgLists(P) ==
  LET Slot == P \cup {PH}
      L == UNION {[1..m -> Slot] : m \in 1..3}
  IN {c \in L : FirstPH(c) # 0}
=============================================================================
