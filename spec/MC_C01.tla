------------------------------- MODULE MC_C01 -------------------------------
(* C01 design level: on the vocabulary dumped from the code, the model parser applied to the
   model formatter's text gives back the value, for every value of the bounded universes;
   every such value becomes a round-trip command for the real formatter and parser. *)
EXTENDS EnumFormat, EnumParser, Universe

CONSTANTS TIER, SEEDS, SEED
VARIABLES mode, n
vars == <<mode, n>>

TermsQuick == U1 \cup AtomsU0 \cup ImgWithLatePH \cup PairCoverSet(0) \cup Sample(U2rSet(0), 12, SEED)
TermsThorough == U1 \cup AtomsU0 \cup ImgWithLatePH \cup U2rSet(0)
Cases(k) == IF TIER = "quick"
            THEN {AsTerm(t) : t \in Part(TermsQuick, k, SEEDS)} \cup Part(EnvelopeQuickSet(0) \cup RichEnvelopeSet(0), k, SEEDS)
            ELSE {AsTerm(t) : t \in Part(TermsThorough, k, SEEDS)} \cup Part(EnvelopeFullSet(0) \cup RichEnvelopeSet(0), k, SEEDS)

Init == mode = "seed" /\ n \in 1..SEEDS
Next == mode = "seed" /\ mode' = "case" /\ n' \in Cases(n)

RoundTrip == mode = "case" => Parse(Format(n)) = OkRes(n)
Emit == mode = "case" => PrintT(<<"CMD", ToJson([op |-> "rt_enum", fmt |-> FmtName, v |-> N2J(n)])>>)
Spec == Init /\ [][Next]_vars
=============================================================================
