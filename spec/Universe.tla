------------------------------ MODULE Universe ------------------------------
(* Bounded universes of canonical enum values shared by the model-checking modules. *)
EXTENDS Values, Vocab, SequencesExt

IV(n) == [k |-> "VariableIndependent", n |-> n]
DV(n) == [k |-> "VariableDependent", n |-> n]
QV(n) == [k |-> "VariableQuery", n |-> n]
OP(n) == [k |-> "Operator", n |-> n]
INT(n) == [k |-> "Interval", n |-> n]

\* U0: every atom kind
\* names: ASCII, inner '-' / '_', digits, a digit right after the prefix, non-ASCII letters, non-ASCII NUMERIC characters
\* (alphanumeric for Rust but not ASCII digits), a long name; intervals up to usize::MAX incl. values around 2^32 and 2^63
RECURSIVE Rep(_, _)
Rep(x, k) == IF k = 0 THEN "" ELSE x \o Rep(x, k - 1)
AtomsU0 == {W("a"), W("b"), W("go-to"), W("A_b"), W("x1"), IV("x"), DV("y"), QV("z1"), OP("op"), OP("go-to"),
            W("x²"), W("名２"), W("n٣"), W("é"), W("Ω1"), W("½x"), OP("é-x"), IV("1"), IV("12"), QV("9z"), DV("①a"), W(Rep("ab", 20)), W(Rep("name", 20)), OP(Rep("x", 65)),
            INT("0"), INT("7"), INT("30000"), INT("4294967296"), INT("4294967297"), INT("9223372036854775807"),
            INT("9223372036854775808"), INT("12345678901234567890"), INT(VocabAll.usize_max), PH}

\* non-empty subsets with at most n (<= 3) elements, without enumerating SUBSET P
SubsetsUpTo(P, n) == {{x} : x \in P}
                     \cup (IF n >= 2 THEN {{x, y} : x \in P, y \in P} ELSE {})
                     \cup (IF n >= 3 THEN {{x, y, z} : x \in P, y \in P, z \in P} ELSE {})
SeqsOfLen(P, m) == [1..m -> P]
SeqsUpTo(P, n) == UNION {SeqsOfLen(P, m) : m \in 1..n}
PairsUnordered(P) == {{x, y} : x \in P, y \in P}
StmtAsym == AsymBinKinds \ {"DifferenceExtension", "DifferenceIntension"}

\* every constructor over children from P
Build(P, nset, nseq, nimg) ==
       {[k |-> kd, s |-> S] : kd \in SetKinds, S \in SubsetsUpTo(P, nset)}
  \cup {[k |-> kd, q |-> q] : kd \in SeqKinds, q \in SeqsUpTo(P, nseq)}
  \cup UNION {{[k |-> kd, i |-> i, q |-> q] : kd \in ImgKinds, i \in 0..Len(q)} : q \in SeqsUpTo(P, nimg) \cup {<<>>}}
  \cup {[k |-> "Negation", a |-> x] : x \in P}
  \cup {[k |-> kd, a |-> x, b |-> y] : kd \in AsymBinKinds, x \in P, y \in P}
  \cup {[k |-> kd, p |-> pr] : kd \in SymStmtKinds, pr \in PairsUnordered(P)}

P4 == {W("a"), W("b"), IV("x"), QV("z")}
U1 == Build(P4, 3, 3, 2)

\* one representative per constructor (the 23 compound/statement kinds) + atoms: children of depth-2 values
RepOf(kd) == CASE kd \in SetKinds -> [k |-> kd, s |-> {W("a"), W("b")}]
               [] kd \in SeqKinds -> [k |-> kd, q |-> <<W("a"), IV("x")>>]
               [] kd \in ImgKinds -> [k |-> kd, i |-> 1, q |-> <<W("a"), W("b")>>]
               [] kd = "Negation" -> [k |-> kd, a |-> W("a")]
               [] kd \in AsymBinKinds -> [k |-> kd, a |-> W("a"), b |-> W("b")]
               [] kd \in SymStmtKinds -> [k |-> kd, p |-> {W("a"), W("b")}]
Reps == {RepOf(kd) : kd \in CompoundKinds \cup StatementKinds} \cup {W("c"), IV("x"), DV("y"), QV("z"), OP("op"), INT("7")}
U2rSet(z) == Build(Reps, 2, 2, 2)       \* (dummy parameter: TLC evaluates parameterless constants eagerly at start-up)

\* pairwise cover of direct nesting: every constructor directly inside every constructor at every position (the sibling is a word)
PairCoverSet(z) ==
  LET K == W("k") IN
  UNION {{[k |-> kd, s |-> {c, K}], [k |-> kd, s |-> {c}]} : kd \in SetKinds, c \in Reps}
  \cup UNION {{[k |-> kd, q |-> <<c, K>>], [k |-> kd, q |-> <<K, c>>], [k |-> kd, q |-> <<c>>]} : kd \in SeqKinds, c \in Reps}
  \cup UNION {{[k |-> kd, i |-> i, q |-> <<c, K>>], [k |-> kd, i |-> i, q |-> <<K, c>>]} : kd \in ImgKinds, i \in 0..2, c \in Reps \ {PH}}
  \cup {[k |-> "Negation", a |-> c] : c \in Reps}
  \cup UNION {{[k |-> kd, a |-> c, b |-> K], [k |-> kd, a |-> K, b |-> c]} : kd \in AsymBinKinds, c \in Reps}
  \cup {[k |-> kd, p |-> {c, K}] : kd \in SymStmtKinds, c \in Reps}

\* images whose components contain a placeholder AFTER the index (in C01's universe, DESIGN 9a)
ImgWithLatePH == {[k |-> kd, i |-> i, q |-> q] : kd \in ImgKinds, i \in 0..1,
                  q \in {<<W("a"), PH>>, <<PH>>, <<W("a"), PH, W("b")>>, <<W("a"), PH, PH>>}}
               \ {[k |-> kd, i |-> 1, q |-> <<PH>>] : kd \in ImgKinds}      \* index 1 with <<PH>>: the placeholder precedes

\* ---------------------------------------------------------------- envelopes
Puncts == {"Judgement", "Goal", "Question", "Quest"}
StampsFull == {[k |-> "Eternal"], [k |-> "Past"], [k |-> "Present"], [k |-> "Future"]}
              \cup {[k |-> "Fixed", n |-> n] : n \in {"0", "-1", "137", "9223372036854775807", "-9223372036854775808"}}
\* neighbours beyond 2^53 (anything routed through f64 merges them)
StampsHuge == {[k |-> "Fixed", n |-> n] : n \in {"9007199254740992", "9007199254740993", "9223372036854775806", "-9223372036854775807", "-9007199254740993"}}
Nums3 == {"0", "0.5", "1"}
TruthsFull == {<<>>} \cup {<<a>> : a \in Nums3} \cup {<<a, b>> : a \in Nums3, b \in {"0", "0.9", "1"}}
BudgetsFull == {<<>>} \cup {<<a>> : a \in Nums3} \cup {<<a, b>> : a \in Nums3, b \in Nums3}
               \cup {<<a, b, c>> : a \in Nums3, b \in Nums3, c \in {"0", "0.75", "1"}}
TruthsQuick == {<<>>, <<"1">>, <<"0.5">>, <<"1", "0.9">>, <<"0", "0">>, <<"0.5", "1">>}
BudgetsQuick == {<<>>, <<"0.5">>, <<"1", "0">>, <<"0.5", "0.75", "0.4">>}

Sentence(t, p, st, tr) == [t |-> t, p |-> p, st |-> st, tr |-> IF p \in {"Question", "Quest"} THEN <<>> ELSE tr]
Sentences(T, Ps, Ss, Trs) == {Sentence(t, p, st, tr) : t \in T, p \in Ps, st \in Ss, tr \in Trs}
AsTerm(t) == [kind |-> "term", v |-> t]
AsSentence(s) == [kind |-> "sentence", v |-> s]
AsTask(b, s) == [kind |-> "task", v |-> [b |-> b, s |-> s]]
\* numbers whose decimal text is long or tiny (Rust prints f64 without exponent): a formatter or parser that rounds,
\* truncates or switches to scientific notation shows here and nowhere among 0, 0.5, 0.9, 1
NumsRich == {"0.0000001", "0.00005", "0.001", "0.123456789", "0.30000000000000004", "0.9999999999999999", "0.12341", "0.12344", "0.99995",
             "0." \o Rep("0", 299) \o "1"}
RichEnvelopeSet(z) ==
  LET Ts == {<<x>> : x \in NumsRich} \cup {<<x, y>> : x \in {"0.00005", "0.123456789"}, y \in NumsRich}
      Bs == {<<x>> : x \in NumsRich} \cup {<<"0.5", x, "0.30000000000000004">> : x \in NumsRich}
      S == {Sentence(W("a"), p, [k |-> "Eternal"], tr) : p \in {"Judgement", "Goal"}, tr \in Ts}
      \* neighbouring doubles next to each other in one list (a formatter that reuses the previous number's text merges them)
      Adj == {<<"1", "0.9999999999999999">>, <<"0.9999999999999999", "1">>, <<"0.30000000000000004", "0.3">>, <<"0.1", "0.10000000000000002">>, <<"0.5", "0.5000000000000001">>,
              <<"0", "0.000000000000000000000000000000000000000000001">>}
      SA == {Sentence(W("a"), "Judgement", [k |-> "Eternal"], tr) : tr \in Adj}
  IN {AsSentence(s) : s \in SA} \cup {AsTask(<<tr[1], tr[2], tr[1]>>, Sentence(W("a"), "Goal", [k |-> "Eternal"], tr)) : tr \in Adj} \cup
     {AsSentence(s) : s \in S} \cup {AsTask(b, Sentence(IV("x"), "Judgement", [k |-> "Present"], <<"0.0000001", "0.9999999999999999">>)) : b \in Bs}
     \cup {AsSentence(Sentence(W("a"), p, st, <<>>)) : p \in {"Judgement", "Quest"}, st \in StampsHuge}

\* terms whose first / last token interacts with budgets, punctuation and bracket-less stamps
Junctions == {W("a"), IV("x"), IV("1"), QV("z"), OP("op"), INT("7"),
              [k |-> "Inheritance", a |-> W("a"), b |-> W("b")],
              [k |-> "Conjunction", s |-> {W("a"), QV("z")}],
              [k |-> "Product", q |-> <<IV("x"), W("a")>>],
              [k |-> "SetExtension", s |-> {W("a")}]}

EnvelopeQuickSet(z) == LET S == Sentences(Junctions, Puncts, StampsFull, TruthsQuick) IN
                 {AsSentence(s) : s \in S} \cup {AsTask(b, s) : b \in BudgetsQuick, s \in S}
EnvelopeFullSet(z) == LET S == Sentences(Junctions, Puncts, StampsFull, TruthsFull) IN
                {AsSentence(s) : s \in S} \cup {AsTask(b, s) : b \in BudgetsFull, s \in S}

\* k-th of K parts of a set (deterministic: SetToSeq follows TLC's value order); lets the seeds of an MC module
\* share one universe between the workers
Part(S, k, K) == LET q == SetToSeq(S) IN {q[i] : i \in {j \in 1..Len(q) : j % K = k % K}}
\* a seeded sample: every m-th element starting at offset (seed % m)
Sample(S, m, seed) == LET q == SetToSeq(S) IN {q[i] : i \in {j \in 1..Len(q) : j % m = seed % m}}

\* ---------------------------------------------------------------- C17: start terms (every constructor, several shapes)
C17Start == AtomsU0 \cup {RepOf(kd) : kd \in CompoundKinds \cup StatementKinds}
            \cup {[k |-> kd, i |-> i, q |-> q] : kd \in ImgKinds, i \in {0}, q \in {<<>>}}
            \cup {[k |-> "Similarity", p |-> {W("a")}], [k |-> "SetExtension", s |-> {SE1(W("a")), W("a")}],
                  INT(VocabAll.usize_max)}
=============================================================================
