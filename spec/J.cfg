INIT Init
NEXT Next
POSTCONDITION Done
CHECK_DEADLOCK FALSE
