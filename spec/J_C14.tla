-------------------------------- MODULE J_C14 --------------------------------
(* Judge for C14: observations of the real accessors, predicates and the real ImageIterator. *)
EXTENDS TermOps, LexValues, TLCExt

Obs == ndJsonDeserialize(IOEnv.NV_OBS)
VARIABLE l

Seq2O(js) == [i \in 1..Len(js) |-> J2O(js[i])]
V(b, tag) == IF b THEN {} ELSE {tag}

AccViol(o) ==
  IF "build" \notin DOMAIN o.o \/ o.o.build # "ok" THEN {"build"} ELSE
  LET t == J2O(o.o.t)
      v == J2V(o.o.t)
      comps == Seq2O(o.o.components)
      wph == Seq2O(o.o.with_placeholder)
      ext == Seq2O(o.o.extract)
      ext2 == Seq2O(o.o.extract_iter)
      p == o.o.pred
  IN V(v = J2V(o.c.t), "build-differs")
     \cup V(Same(t, comps, OChildren(t)), "components")
     \cup V(Same(t, wph, OWithPH(t)), "with-placeholder")
     \cup V(Same(t, ext, wph), "extract-vs-borrowed")
     \cup V(ext2 = ext, "extract-iter")
     \cup V(t.k \in ImgKinds => (Len(wph) > t.i /\ wph[t.i + 1] = PH /\ WithoutAt(wph, t.i + 1) = comps), "placeholder-position")
     \cup V(t.k \notin ImgKinds => Same(t, comps, wph), "no-image-same")
     \cup V(o.o.compound_components.some = IsCompound(v), "compound-components-some")
     \cup V(o.o.compound_components.some => Seq2O(o.o.compound_components.v) = comps, "compound-components")
     \cup V(p.category = Category(v), "category")
     \cup V(Cardinality({b \in {<<"a", p.is_atom>>, <<"c", p.is_compound>>, <<"s", p.is_statement>>} : b[2]}) = 1, "category-partition")
     \cup V(p.is_atom = (Category(v) = "Atom") /\ p.is_compound = (Category(v) = "Compound") /\ p.is_statement = (Category(v) = "Statement"), "category-predicates")
     \cup V(p.capacity = Capacity(v), "capacity")
     \cup V(p.base_num = BaseNum(Capacity(v)), "base-num")
     \cup V(/\ p.cap_atom = (Capacity(v) = "Atom") /\ p.cap_unary = (Capacity(v) = "Unary")
            /\ p.cap_binary = (Capacity(v) \in {"BinaryVec", "BinarySet"})
            /\ p.cap_binary_vec = (Capacity(v) = "BinaryVec") /\ p.cap_binary_set = (Capacity(v) = "BinarySet")
            /\ p.cap_multi = (Capacity(v) \in {"Vec", "Set"}) /\ p.cap_vec = (Capacity(v) = "Vec") /\ p.cap_set = (Capacity(v) = "Set"),
            "capacity-predicates")
     \cup V(Capacity(v) \in {"Atom", "Unary"} => Len(comps) = 1, "arity-one")
     \cup V(Capacity(v) \in {"BinaryVec", "BinarySet"} => Len(comps) = 2, "arity-two")
     \cup V(o.o.is_image = (v.k \in ImgKinds), "is-image")

\* compound_components is either {"some":..}-less raw JSON: Some(list) -> array, None -> null is avoided by the harness
LexViol(o) ==
  LET x == J2L(o.c.t)
      ext == [i \in 1..Len(o.o.extract) |-> J2L(o.o.extract[i])]
      p == o.o.pred
  IN V(ext = LChildren(x), "lex-extract")
     \cup V(p.category = LCategory(x), "lex-category")
     \cup V(p.capacity = LCapacity(x), "lex-capacity")
     \cup V(o.o.fold.r = "ok" => (o.o.fold_pred.category = p.category /\ Category(J2V(o.o.fold.v)) = p.category), "lex-vs-fold-category")
     \cup V(o.o.fold.r # "panic", "fold-panic")

IterViol(o) ==
  LET n == o.c.n  i == o.c.i
      raw == [j \in 1..n |-> W("c" \o ToString(j - 1))]
      outs == [j \in 1..Len(o.o.outs) |-> IF o.o.outs[j].k = "None" THEN None ELSE J2V(o.o.outs[j])]
      RECURSIVE Walk(_, _)
      Walk(st, j) == IF j > Len(outs) THEN TRUE
                     ELSE LET r == IterNext(st) IN r.out = outs[j] /\ Walk(r.st, j + 1)
  IN IF i <= n THEN V(Walk(IterInit(raw, i), 1), "image-iterator") ELSE {}
IterDrift(o) == LET n == o.c.n  i == o.c.i
                    raw == [j \in 1..n |-> W("c" \o ToString(j - 1))]
                    outs == [j \in 1..Len(o.o.outs) |-> IF o.o.outs[j].k = "None" THEN None ELSE J2V(o.o.outs[j])]
                    RECURSIVE Walk(_, _)
                    Walk(st, j) == IF j > Len(outs) THEN TRUE ELSE LET r == IterNext(st) IN r.out = outs[j] /\ Walk(r.st, j + 1)
                IN IF i > n /\ ~Walk(IterInit(raw, i), 1) THEN {"image-iterator-illegal-index"} ELSE {}

Viol(o) == CASE o.c.op = "accessors" -> AccViol(o)
             [] o.c.op = "lex_accessors" -> LexViol(o)
             [] o.c.op = "image_iter" -> IterViol(o)
             [] OTHER -> {"unknown-op"}
Drift(o) == IF o.c.op = "image_iter" THEN IterDrift(o) ELSE {}

Init == l = 1
Next == /\ l <= Len(Obs)
        /\ l' = l + 1
        /\ LET v == Viol(Obs[l]) IN v = {} \/ PrintT(<<"BAD", Obs[l].id, v>>)
        /\ LET d == Drift(Obs[l]) IN d = {} \/ PrintT(<<"DRIFT", Obs[l].id, d>>)
Done == /\ TLCGet("stats").diameter - 1 = Len(Obs)
        /\ PrintT(<<"JUDGED", Len(Obs)>>)
=============================================================================
