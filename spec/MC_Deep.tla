------------------------------- MODULE MC_Deep -------------------------------
(* M7, the term-builder machine: a term under construction is wrapped, step by step, into a
   randomly chosen constructor with siblings from a small pool, at a randomly chosen position.
   Run by TLC in SIMULATION mode (`-simulate -depth MAXD+1`) it produces deeply nested values
   (the properties quantify over any nesting depth; the exhaustive universes stop at depth 2).
   Long flat compounds are added as extra initial states. *)
EXTENDS EnumFormat, EnumParser, Universe

CONSTANTS MAXD, LONGN
VARIABLES t, d
vars == <<t, d>>

Leaves == {W("a"), IV("x"), QV("z"), OP("op"), INT("7"), PH}
Sib == {W("b"), DV("y"), SE1(W("c")), [k |-> "Inheritance", a |-> W("a"), b |-> W("b")]}
Wraps(x) ==
       {[k |-> kd, s |-> {x} \cup S] : kd \in SetKinds, S \in {{}, {W("b")}, {W("b"), DV("y")}}}
  \cup {[k |-> kd, q |-> q] : kd \in SeqKinds, q \in {<<x>>, <<x, W("b")>>, <<W("b"), x>>, <<W("b"), x, DV("y")>>}}
  \cup {[k |-> kd, i |-> i, q |-> q] : kd \in ImgKinds, i \in 0..1, q \in {<<x>>, <<x, W("b")>>, <<W("b"), x>>}}
  \cup {[k |-> "Negation", a |-> x]}
  \cup {[k |-> kd, a |-> x, b |-> y] : kd \in AsymBinKinds, y \in Sib} \cup {[k |-> kd, a |-> y, b |-> x] : kd \in AsymBinKinds, y \in Sib}
  \cup {[k |-> kd, p |-> {x, y}] : kd \in SymStmtKinds, y \in Sib}
\* images must not get a placeholder before their index (DESIGN 9a): a bare placeholder is wrapped into a set first
OkWrap(x, w) == ~(w.k \in ImgKinds /\ \E j \in 1..Len(w.q) : w.q[j] = PH)

\* a chain of symmetric statements (and one of sets) 40 deep: anything that visits BOTH operand orders at every level is exponential here
RECURSIVE SymChain(_, _)
SymChain(kd, m) == IF m = 0 THEN W("a") ELSE [k |-> kd, p |-> {SymChain(kd, m - 1), W("b")}]
RECURSIVE SetChain(_)
SetChain(m) == IF m = 0 THEN W("a") ELSE [k |-> "SetExtension", s |-> {SetChain(m - 1), W("b")}]
LongFlat == {[k |-> "SetIntension", s |-> {SymChain("Similarity", 40)}], [k |-> "Conjunction", s |-> {SymChain("EquivalenceConcurrent", 40), W("c")}],
             SymChain("Equivalence", 40), SetChain(40),
             [k |-> "Conjunction", s |-> {W("w" \o ToString(i)) : i \in 1..LONGN}],
             [k |-> "Product", q |-> [i \in 1..LONGN |-> W("w" \o ToString(i % 7))]],
             [k |-> "ImageIntension", i |-> LONGN, q |-> [i \in 1..LONGN |-> IV("v" \o ToString(i))]],
             [k |-> "SetIntension", s |-> {INT(ToString(i * 1000003)) : i \in 1..LONGN}]}

\* (initial states are evaluated on TLC's main thread, whose stack JAVA_TOOL_OPTIONS does not enlarge: the long
\* values are therefore successors of a seed state, evaluated by the workers)
LongSeed == W("long-seed")
Init == \/ t \in Leaves /\ d = 0
        \/ t = LongSeed /\ d = MAXD - 1
Next == /\ d < MAXD /\ d' = d + 1
        /\ IF t = LongSeed THEN t' \in LongFlat ELSE \E w \in Wraps(t) : OkWrap(t, w) /\ t' = w

Values == {AsTerm(t), AsSentence(Sentence(t, "Judgement", [k |-> "Fixed", n |-> "-1"], <<"1", "0.9">>)),
           AsTask(<<"0.5">>, Sentence(t, "Question", [k |-> "Eternal"], <<>>))}
\* simulation mode evaluates the invariants on EVERY successor of the states of a trace: only a tenth of the
\* depth-MAXD states (chosen by their outermost shape) are checked and emitted
Pick == \/ t.k \in {"Negation", "Similarity", "Implication"} \/ t \in LongFlat
        \/ (t.k \in SeqKinds /\ Len(t.q) = 3) \/ (t.k \in ImgKinds /\ t.i = 1 /\ Len(t.q) = 2) \/ (t.k = "Disjunction" /\ Cardinality(t.s) = 3)
ModelRoundTrip == (d = MAXD /\ Pick) => \A v \in Values : Parse(Format(v)) = OkRes(v)
Emit == (d = MAXD /\ Pick) => \A v \in Values : PrintT(<<"CMD", ToJson([op |-> "rt_enum", fmt |-> FmtName, v |-> N2J(v), deep |-> d])>>)
Spec == Init /\ [][Next]_vars
=============================================================================
