------------------------------ MODULE LexValues ------------------------------
(* Lexical Narsese values (strings in every field, as the library stores them) and the lexical
   tree that denotes an enum value in the format under study.
     term      [k |-> "Atom", prefix |-> "$", name |-> "x"]
               [k |-> "Compound", connecter |-> "&&", terms |-> <<..>>]
               [k |-> "Set", left |-> "{", right |-> "}", terms |-> <<..>>]
               [k |-> "Statement", copula |-> "-->", subject |-> t, predicate |-> u]
     sentence  [term, punctuation, stamp, truth |-> <<"1","0.9">>]     task [budget, sentence]   *)
EXTENDS Values, Vocab, SequencesExt

RE == RawE(FmtName)            \* the enum table of the format, keywords as STRINGS

LAtom(p, n) == [k |-> "Atom", prefix |-> p, name |-> n]
LCompound(c, ts) == [k |-> "Compound", connecter |-> c, terms |-> ts]
LSet(l, r, ts) == [k |-> "Set", left |-> l, right |-> r, terms |-> ts]
LStatement(c, s, p) == [k |-> "Statement", copula |-> c, subject |-> s, predicate |-> p]

SeqOfSet(S) == SetToSeq(S)

\* the lexical tree of a canonical enum value (unordered parts in an arbitrary but fixed order)
RECURSIVE LexTree(_)
LexTree(v) ==
  CASE v.k = "Placeholder" -> LAtom(RE.prefix["Placeholder"], "")
    [] v.k \in NamedAtomKinds -> LAtom(RE.prefix[v.k], v.n)
    [] v.k = "SetExtension" -> LSet(RE.se_l, RE.se_r, LET q == SeqOfSet(v.s) IN [i \in 1..Len(q) |-> LexTree(q[i])])
    [] v.k = "SetIntension" -> LSet(RE.si_l, RE.si_r, LET q == SeqOfSet(v.s) IN [i \in 1..Len(q) |-> LexTree(q[i])])
    [] v.k \in SetKinds -> LCompound(RE.conn[v.k], LET q == SeqOfSet(v.s) IN [i \in 1..Len(q) |-> LexTree(q[i])])
    [] v.k \in SeqKinds -> LCompound(RE.conn[v.k], [i \in 1..Len(v.q) |-> LexTree(v.q[i])])
    [] v.k \in ImgKinds -> LET c == InsertAt(v.q, v.i + 1, PH) IN LCompound(RE.conn[v.k], [i \in 1..Len(c) |-> LexTree(c[i])])
    [] v.k = "Negation" -> LCompound(RE.conn[v.k], <<LexTree(v.a)>>)
    [] v.k \in {"DifferenceExtension", "DifferenceIntension"} -> LCompound(RE.conn[v.k], <<LexTree(v.a), LexTree(v.b)>>)
    [] v.k \in SymStmtKinds -> LET q == SeqOfSet(v.p) IN
                               LStatement(RE.cop[v.k], LexTree(q[1]), LexTree(q[IF Len(q) = 1 THEN 1 ELSE 2]))
    [] OTHER -> LStatement(RE.cop[v.k], LexTree(v.a), LexTree(v.b))

LCategory(x) == CASE x.k = "Atom" -> "Atom" [] x.k \in {"Compound", "Set"} -> "Compound" [] OTHER -> "Statement"
LCapacity(x) == CASE x.k = "Atom" -> "Atom" [] x.k \in {"Compound", "Set"} -> "Vec" [] OTHER -> "BinaryVec"
LChildren(x) == CASE x.k = "Atom" -> <<x>> [] x.k \in {"Compound", "Set"} -> x.terms [] OTHER -> <<x.subject, x.predicate>>

\* JSON -> lexical value: arrays are already sequences, nothing to canonicalise
RECURSIVE J2L(_)
J2L(j) == CASE j.k = "Atom" -> LAtom(j.prefix, j.name)
            [] j.k = "Compound" -> LCompound(j.connecter, [i \in 1..Len(j.terms) |-> J2L(j.terms[i])])
            [] j.k = "Set" -> LSet(j.left, j.right, [i \in 1..Len(j.terms) |-> J2L(j.terms[i])])
            [] j.k = "Statement" -> LStatement(j.copula, J2L(j.subject), J2L(j.predicate))
J2LSentence(j) == [term |-> J2L(j.term), punctuation |-> j.punctuation, stamp |-> j.stamp, truth |-> SeqOf(j.truth)]
J2LTask(j) == [budget |-> SeqOf(j.budget), sentence |-> J2LSentence(j.sentence)]
J2LN(j) == CASE j.kind = "term" -> [kind |-> "term", v |-> J2L(j.v)]
             [] j.kind = "sentence" -> [kind |-> "sentence", v |-> J2LSentence(j.v)]
             [] j.kind = "task" -> [kind |-> "task", v |-> J2LTask(j.v)]
=============================================================================
