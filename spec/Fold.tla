--------------------------------- MODULE Fold ---------------------------------
(* Lexical -> enum folding (lexical_fold/impl_enum.rs) on the dumped vocabulary.  Results are
   [r |-> "ok", v |-> value] or [r |-> "err"]; the model has no "panic" outcome: reaching a
   panicking constructor with a bad argument would be the design error C05 excludes, and
   GuardsHold states where the guards are. *)
EXTENDS EnumParser, LexValues

FErr == [r |-> "err"]
FOk(v) == [r |-> "ok", v |-> v]

\* ---- f64::from_str on the strings of the garbage pool (data), otherwise on digits-and-point text
SpecialFloats == [s \in {"NaN", "nan", "inf", "-inf", "infinity", "1e-1", "1e400", "-0.5", "-0", "+0.5", "2", "1.5", "1e0"} |->
   CASE s \in {"NaN", "nan"} -> [ok |-> TRUE, in01 |-> FALSE, text |-> "NaN"]
     [] s \in {"inf", "infinity", "1e400"} -> [ok |-> TRUE, in01 |-> FALSE, text |-> "inf"]
     [] s = "-inf" -> [ok |-> TRUE, in01 |-> FALSE, text |-> "-inf"]
     [] s = "1e-1" -> [ok |-> TRUE, in01 |-> TRUE, text |-> "0.1"]
     [] s = "1e0" -> [ok |-> TRUE, in01 |-> TRUE, text |-> "1"]
     [] s = "-0.5" -> [ok |-> TRUE, in01 |-> FALSE, text |-> "-0.5"]
     [] s = "-0" -> [ok |-> TRUE, in01 |-> TRUE, text |-> "-0"]
     [] s = "+0.5" -> [ok |-> TRUE, in01 |-> TRUE, text |-> "0.5"]
     [] s = "2" -> [ok |-> TRUE, in01 |-> FALSE, text |-> "2"]
     [] s = "1.5" -> [ok |-> TRUE, in01 |-> FALSE, text |-> "1.5"]]
FloatLit(s) == IF s \in DOMAIN SpecialFloats THEN SpecialFloats[s]
               ELSE LET c == Chars(s) IN
                    IF c # <<>> /\ (\A i \in 1..Len(c) : c[i] \in Digits \cup {"."}) /\ IsFloatBuf(c)
                    THEN [ok |-> TRUE, in01 |-> FloatIn01(c), text |-> FloatText(c)]
                    ELSE [ok |-> FALSE, in01 |-> FALSE, text |-> ""]
\* try_fold_float_vec parses EVERY string; try_from_floats validates only the first N
FoldFloats(strs, N) ==
  IF \E i \in 1..Len(strs) : ~FloatLit(strs[i]).ok THEN FErr
  ELSE LET used == SubSeq(strs, 1, Min2(Len(strs), N)) IN
       IF \E i \in 1..Len(used) : ~FloatLit(used[i]).in01 THEN FErr
       ELSE FOk([i \in 1..Len(used) |-> FloatLit(used[i]).text])

RECURSIVE FoldTerm(_)
FoldAll(ts) == LET rs == [i \in 1..Len(ts) |-> FoldTerm(ts[i])] IN
               IF \E i \in 1..Len(rs) : rs[i].r # "ok" THEN FErr ELSE FOk([i \in 1..Len(rs) |-> rs[i].v])
\* first entry of an ordered kind list whose keyword (string) equals w
RECURSIVE KindEqFrom(_, _, _, _)
KindEqFrom(w, order, table, i) == IF i > Len(order) THEN "none" ELSE IF table[order[i]] = w THEN order[i] ELSE KindEqFrom(w, order, table, i + 1)
FoldAtomOrder == <<"Word", "Placeholder", "VariableIndependent", "VariableDependent", "VariableQuery", "Interval", "Operator">>
FoldConnOrder == <<"IntersectionExtension", "IntersectionIntension", "DifferenceExtension", "DifferenceIntension", "Product",
                   "ImageExtension", "ImageIntension", "Conjunction", "Disjunction", "Negation", "ConjunctionSequential", "ConjunctionParallel">>
FoldTerm(x) ==
  CASE x.k = "Atom" ->
         LET kind == KindEqFrom(x.prefix, FoldAtomOrder, RE.prefix, 1) IN
         CASE kind = "none" -> FErr
           [] kind = "Placeholder" -> FOk(PH)
           [] kind = "Interval" -> IF UIntOK(Chars(x.name)) THEN FOk([k |-> "Interval", n |-> UIntText(Chars(x.name))]) ELSE FErr
           [] OTHER -> FOk([k |-> kind, n |-> x.name])                     \* the name may be empty (DESIGN 9d)
    [] x.k = "Set" ->
         LET ts == FoldAll(x.terms) IN
         IF ts.r # "ok" THEN FErr
         ELSE IF x.left = RE.se_l /\ x.right = RE.se_r THEN FOk([k |-> "SetExtension", s |-> Rng(ts.v)])
         ELSE IF x.left = RE.si_l /\ x.right = RE.si_r THEN FOk([k |-> "SetIntension", s |-> Rng(ts.v)])
         ELSE FErr
    [] x.k = "Compound" ->
         LET ts == FoldAll(x.terms)
             kind == KindEqFrom(x.connecter, FoldConnOrder, RE.conn, 1)
         IN IF ts.r # "ok" THEN FErr
            ELSE LET c == ts.v IN
            CASE kind = "none" -> FErr
              [] kind \in {"DifferenceExtension", "DifferenceIntension"} ->
                   IF Len(c) < 2 THEN FErr ELSE FOk([k |-> kind, a |-> c[1], b |-> c[2]])         \* surplus components are dropped
              [] kind = "Negation" -> IF Len(c) < 1 THEN FErr ELSE FOk([k |-> kind, a |-> c[1]])
              [] kind \in ImgKinds -> IF FirstPH(c) = 0 THEN FErr ELSE FOk(MkImage(kind, c))       \* guard of new_image_*: index <= length
              [] kind \in SeqKinds -> FOk([k |-> kind, q |-> c])
              [] OTHER -> FOk([k |-> kind, s |-> Rng(c)])
    [] x.k = "Statement" ->
         LET s == FoldTerm(x.subject)  p == FoldTerm(x.predicate)
             kind == KindEqFrom(x.copula, CopOrder, RE.cop, 1)
         IN IF s.r # "ok" \/ p.r # "ok" \/ kind = "none" THEN FErr ELSE FOk(MkStatement(kind, s.v, p.v))

FoldSentence(s) ==
  LET t == FoldTerm(s.term)
      tr == FoldFloats(s.truth, 2)
      st == ParseStamp(Chars(s.stamp))
      pu == ParsePunct(Chars(s.punctuation))
  IN IF t.r # "ok" \/ tr.r # "ok" \/ st.r # "ok" \/ pu.r # "ok" THEN FErr
     ELSE FOk([t |-> t.v, p |-> pu.v, st |-> st.v, tr |-> IF pu.v \in {"Question", "Quest"} THEN <<>> ELSE tr.v])
FoldTask(t) == LET b == FoldFloats(t.budget, 3)  s == FoldSentence(t.sentence)
               IN IF b.r # "ok" \/ s.r # "ok" THEN FErr ELSE FOk([b |-> b.v, s |-> s.v])
FoldN(n) == CASE n.kind = "term" -> (LET r == FoldTerm(n.v) IN IF r.r = "ok" THEN FOk([kind |-> "term", v |-> r.v]) ELSE FErr)
              [] n.kind = "sentence" -> (LET r == FoldSentence(n.v) IN IF r.r = "ok" THEN FOk([kind |-> "sentence", v |-> r.v]) ELSE FErr)
              [] n.kind = "task" -> (LET r == FoldTask(n.v) IN IF r.r = "ok" THEN FOk([kind |-> "task", v |-> r.v]) ELSE FErr)
=============================================================================
