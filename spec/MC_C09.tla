------------------------------- MODULE MC_C09 -------------------------------
(* C09: spacings of the token sequence.  A state is (value, spacing); TLC checks on the model
   that every explored spacing parses to the value and emits the spaced text for both real
   pipelines.  Explored spacings: none, one, two spaces everywhere; every single boundary opened
   alone (others closed) and closed alone (others open); a wide gap at one boundary; seeded
   random spacings; for the lexical pipeline also tab / newline / ideographic space. *)
EXTENDS Sugar, EnumFormat, EnumParser, Universe

CONSTANTS TIER, SEEDS, SEED
VARIABLES mode, n, sp, ws
vars == <<mode, n, sp, ws>>

Reps1 == {RepOf(kd) : kd \in CompoundKinds \cup StatementKinds}
SmallEnvelope ==
  LET S == Sentences({W("a"), IV("x"), [k |-> "Inheritance", a |-> W("a"), b |-> QV("z")]}, Puncts, StampsFull, {<<>>, <<"1">>, <<"1", "0.9">>})
  IN {AsSentence(s) : s \in S} \cup {AsTask(b, s) : b \in {<<>>, <<"0.5">>, <<"0.5", "0.75", "0.4">>}, s \in Sample(S, 3, SEED)}
\* surface sugar takes part too (the formatter never writes it, so only hand-written texts contain these token boundaries)
SugarVals == {AsTerm(Stmt(kd, a, b)) : kd \in Derived, a \in {W("a"), SE1(IV("x"))}, b \in {W("b")}}
             \cup {AsTerm([k |-> "ImageExtension", c |-> <<W("a"), PH, W("b"), PH>>]), AsTerm([k |-> "IntervalRaw", raw |-> "007"]),
                   AsSentence(Sentence(Stmt("EquivalenceRetrospective", W("a"), QV("z")), "Question", [k |-> "Past"], <<>>))}
\* every atom of the pool next to every kind of neighbouring token (copula on either side, separator, brackets)
AtomContexts == UNION {{[k |-> "Inheritance", a |-> x, b |-> W("b")], [k |-> "Inheritance", a |-> W("b"), b |-> x], [k |-> "Similarity", p |-> {x, W("b")}],
                        [k |-> "Product", q |-> <<x, W("b")>>], [k |-> "Product", q |-> <<W("b"), x>>], [k |-> "SetIntension", s |-> {x}],
                        [k |-> "ImplicationRetrospective", a |-> x, b |-> x]} : x \in AtomsU0 \ {PH}}
Values == {AsTerm(t) : t \in AtomContexts} \cup {AsTerm(t) : t \in AtomsU0 \cup Reps1 \cup ImgWithLatePH \cup (IF TIER = "thorough" THEN U1 ELSE Sample(U1, 6, SEED))} \cup SugarVals
          \cup (IF TIER = "thorough" THEN EnvelopeQuickSet(0) ELSE SmallEnvelope)

Variants(v) ==
  LET toks == NarseseToks(v)
      m == Len(toks)
  IN {AllSp(toks, k) : k \in 0..2}
     \cup {OnlyAt(toks, j, 1, 0) : j \in 1..(m - 1)} \cup {OnlyAt(toks, j, 0, 1) : j \in 1..(m - 1)}
     \cup {OnlyAt(toks, j, 5, 0) : j \in {i \in 1..(m - 1) : i % 4 = SEED % 4}}
     \cup {[i \in 1..m |-> IF i \in {j, j + 1} THEN 1 ELSE 0] : j \in 1..(m - 2)}             \* two neighbouring boundaries opened together
     \cup {[i \in 1..m |-> IF i \in {j, m - j} THEN 2 ELSE 0] : j \in {i \in 1..(m - 1) : i % 3 = SEED % 3}}   \* two distant ones
     \cup {[i \in 1..m |-> ((i * 7 + r * 13 + SEED) % 5) % 3] : r \in 1..2}

Init == mode = "seed" /\ n \in 1..SEEDS /\ sp = <<>> /\ ws = " "
Next == \/ /\ mode = "seed" /\ mode' = "value" /\ n' \in Part(Values, n, SEEDS) /\ UNCHANGED <<sp, ws>>
        \/ /\ mode = "value" /\ mode' = "case" /\ sp' \in Variants(n) /\ UNCHANGED <<n, ws>>
        \/ /\ mode = "value" /\ mode' = "lexws" /\ sp' = AllSp(NarseseToks(n), 1) /\ ws' \in (Rng(Cls.unicode_ws) \ {" "}) /\ UNCHANGED n        \* every White_Space character the dump knows

Text == Render(NarseseToks(n), sp)
SpacingIrrelevant == mode = "case" => Parse(Text) = OkRes(DesugarN(n))
Emit ==
  /\ mode = "case" =>
       PrintT(<<"CMD", ToJson([op |-> "pipe", fmt |-> FmtName, s |-> Text, expect |-> N2J(DesugarN(n)),
                               macros |-> (FmtName = "ascii" /\ \A i \in 1..Len(sp) : sp[i] = 1)])>>)
  /\ mode = "lexws" =>
       PrintT(<<"CMD", ToJson([op |-> "pipe", fmt |-> FmtName, only |-> "lex", expect |-> N2J(DesugarN(n)),
                               s |-> [i \in 1..Len(Text) |-> IF Text[i] = " " THEN ws ELSE Text[i]]])>>)
Spec == Init /\ [][Next]_vars
=============================================================================
