------------------------------ MODULE Mutators ------------------------------
(* M2: a mutable enum term under set_atom_name / push_components (C17), and get_atom_name.
   The two mutators are functions from (state, argument) to (result, state); MC_C17 turns them
   into the actions of a state machine and the judge replays recorded behaviours of the real
   Term through the same functions. *)
EXTENDS Values, Vocab

RECURSIVE Str(_)
Str(cs) == IF cs = <<>> THEN "" ELSE cs[1] \o Str(Tail(cs))

\* <usize as FromStr>: optional '+', at least one ASCII digit, value <= usize::MAX
UIntParse(n) ==
  LET c == Chars(n)
      d == IF Len(c) > 0 /\ c[1] = "+" THEN Tail(c) ELSE c
  IN IF IsDigits(d) /\ DecLeq(StripLeadingZeros(d), UsizeMax)
     THEN [ok |-> TRUE, v |-> Str(StripLeadingZeros(d))]
     ELSE [ok |-> FALSE]

RenamableKinds == {"Word", "VariableIndependent", "VariableDependent", "VariableQuery", "Operator"}

SetAtomName(t, n) ==
  CASE t.k \in RenamableKinds -> [ok |-> TRUE, t |-> [t EXCEPT !.n = n]]
    [] t.k = "Placeholder" -> [ok |-> TRUE, t |-> t]                       \* succeeds, changes nothing
    [] t.k = "Interval" -> LET r == UIntParse(n) IN
                           IF r.ok THEN [ok |-> TRUE, t |-> [t EXCEPT !.n = r.v]] ELSE [ok |-> FALSE, t |-> t]
    [] OTHER -> [ok |-> FALSE, t |-> t]                                    \* compounds and statements

\* get_atom_name: Some(name) for atoms ("" for the placeholder), None otherwise
AtomName(t) == IF ~IsAtom(t) THEN [some |-> FALSE]
               ELSE [some |-> TRUE, v |-> IF t.k = "Placeholder" THEN "" ELSE t.n]

PushComponents(t, cs) ==
  CASE t.k \in SeqKinds \cup ImgKinds -> [ok |-> TRUE, t |-> [t EXCEPT !.q = @ \o cs]]   \* appended in order; an image keeps its index
    [] t.k \in SetKinds -> [ok |-> TRUE, t |-> [t EXCEPT !.s = @ \cup Rng(cs)]]            \* united
    [] OTHER -> [ok |-> FALSE, t |-> t]                                                  \* atoms, negation, differences, statements

ApplyOp(t, op) == IF op.op = "set_name" THEN SetAtomName(t, op.n) ELSE PushComponents(t, op.cs)
=============================================================================
