------------------------------ MODULE MC_Names ------------------------------
(* Adversarial atom names, DERIVED FROM THE VOCABULARY (DESIGN §5): every defect found around
   names sits where a name that is well-formed by C01's own definition touches a keyword.  From
   the dumped tables and character classes of the format this module builds the names made of
   digits only; a keyword that consists of name characters, alone and with a letter or digit
   before / after; every proper prefix and suffix of such a keyword; number-bracket pairs around
   a digit -- filtered by the statement's well-formedness (non-empty, name characters only, no
   atom prefix at the start, no '-' at either end, no copula inside) -- and places them, for every
   atom kind, at every position class. *)
EXTENDS EnumFormat, EnumParser, Universe

CONSTANTS TIER, SEEDS, SEED
VARIABLES mode, n

RE_ == RawE(FmtName)
AllKeywords == {Chars(RE_.prefix[k]) : k \in AtomKinds} \cup {Chars(RE_.conn[k]) : k \in ConnKinds} \cup {Chars(RE_.cop[k]) : k \in CopKinds}
               \cup {Chars(RE_.stamp[k]) : k \in StampKinds} \cup {Chars(RE_.punct[k]) : k \in PunctKinds}
               \cup {F.truthL, F.truthR, F.budL, F.budR, F.truthSep, F.budSep, F.stampL, F.stampR, F.sep, F.compL, F.compR, F.stL, F.stR, F.seL, F.seR, F.siL, F.siR}
IsNameText(s) == s # <<>> /\ \A i \in 1..Len(s) : s[i] \in NameChars
NameKeywords == {k \in AllKeywords : IsNameText(k)}
PrefixesOf(s) == {SubSeq(s, 1, i) : i \in 1..Len(s)}
SuffixesOf(s) == {SubSeq(s, i, Len(s)) : i \in 1..Len(s)}
Pieces == UNION {PrefixesOf(k) \cup SuffixesOf(k) : k \in NameKeywords}
Base == Pieces \cup {<<"1">>, <<"1", "2">>}
        \cup {l \o <<"1">> \o r : l \in {F.truthL, F.budL} \cap NameKeywords, r \in {F.truthR, F.budR} \cap NameKeywords}
        \cup {l \o r : l \in {F.truthL, F.budL} \cap NameKeywords, r \in {F.truthR, F.budR} \cap NameKeywords}
        \cup {k \o <<"5">> : k \in {Chars(RE_.stamp["Fixed"])} \cap NameKeywords}
Candidates == Base \cup {<<"a">> \o b : b \in Base} \cup {b \o <<"a">> : b \in Base} \cup {b \o <<"1">> : b \in Base} \cup {<<"1">> \o b : b \in Base}
HasInfix(s, kw) == \E i \in 0..(Len(s) - Len(kw)) : StartsAt(s, i, kw)
WFName(s) == /\ IsNameText(s)
             /\ \A k \in AtomKinds : F.prefix[k] = <<>> \/ ~StartsAt(s, 0, F.prefix[k])
             /\ s[1] # "-" /\ s[Len(s)] # "-"
             /\ \A k \in CopKinds : ~HasInfix(s, F.cop[k])
Names == {StrOf(s) : s \in {c \in Candidates : WFName(c)}}
\* in the quick tier a seeded third of the names; the names that are item keywords themselves are always kept
Chosen == IF TIER = "thorough" THEN Names
          ELSE Sample(Names, 3, SEED) \cup {StrOf(k) : k \in {c \in Base : WFName(c) /\ Len(c) <= 3}}

AtomOf(kind, nm) == [k |-> kind, n |-> nm]
B0 == W("b")
Positions(a) ==
  {AsTerm(a), AsTerm([k |-> "Product", q |-> <<a, B0>>]), AsTerm([k |-> "Product", q |-> <<B0, a>>]), AsTerm([k |-> "Negation", a |-> a]),
   AsTerm([k |-> "SetExtension", s |-> {a}]), AsTerm([k |-> "Inheritance", a |-> a, b |-> B0]), AsTerm([k |-> "Inheritance", a |-> B0, b |-> a]),
   AsTerm([k |-> "ImageExtension", i |-> 1, q |-> <<a>>])}
  \* next to EVERY copula (either side) and behind EVERY connecter: a keyword may complete to another keyword with the name's first characters
  \cup {AsTerm(MkStatement(kd, a, B0)) : kd \in CopKinds \ {"Instance", "Property", "InstanceProperty", "EquivalenceRetrospective"}}
  \cup {AsTerm(MkStatement(kd, B0, a)) : kd \in CopKinds \ {"Instance", "Property", "InstanceProperty", "EquivalenceRetrospective"}}
  \cup {AsTerm([k |-> kd, s |-> {a}]) : kd \in SetKinds} \cup {AsTerm([k |-> kd, q |-> <<a, B0>>]) : kd \in SeqKinds}
  \cup {AsTerm([k |-> kd, a |-> a, b |-> B0]) : kd \in {"DifferenceExtension", "DifferenceIntension"}}
  \cup {AsSentence(Sentence(t, p, st, tr)) : t \in {a, [k |-> "Product", q |-> <<B0, a>>]}, p \in Puncts,
        st \in {[k |-> "Eternal"], [k |-> "Present"], [k |-> "Fixed", n |-> "5"]}, tr \in {<<>>, <<"1">>}}
  \cup {AsTask(b, Sentence(a, p, [k |-> "Eternal"], <<>>)) : b \in {<<>>, <<"0.5">>}, p \in {"Judgement", "Question"}}
NameKinds == {"Word", "VariableIndependent", "VariableDependent", "VariableQuery", "Operator"}

Init == mode = "seed" /\ n \in 1..SEEDS
Next == mode = "seed" /\ mode' = "done" /\ n' = n
\* names may hold non-ASCII text: everything is computed inside the invariant, nothing but the seed lives in a state
EmitAll(k) == \A nm \in Part(Chosen, k, SEEDS) : \A kd \in NameKinds : \A v \in Positions(AtomOf(kd, nm)) :
                 PrintT(<<"CMD", ToJson([op |-> "rt_enum", fmt |-> FmtName, v |-> N2J(v), adversarial |-> nm])>>)
Emit == mode = "seed" => EmitAll(n)
\* the model round trip on the same cases: where it fails, the surface language itself is ambiguous
ModelRoundTrip == mode = "seed" => \A nm \in Part(Chosen, n, SEEDS) : \A kd \in NameKinds : \A v \in Positions(AtomOf(kd, nm)) : Parse(Format(v)) = OkRes(v)
Spec == Init /\ [][Next]_<<mode, n>>
=============================================================================
