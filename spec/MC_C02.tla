------------------------------- MODULE MC_C02 -------------------------------
(* C02 design level: on the dumped lexical tables the model parser applied to the model
   formatter's text returns the lexical value, field for field, for vocabulary-consistent values:
   any connecter with 1..4 components, nesting up to 2, 0..3 truth entries, 0..4 budget entries,
   all five stamp forms, every combination of present / absent items, crossed with what the term
   ends with (a name, a digit, a bracket, a bare prefix). *)
EXTENDS LexParser, Universe

CONSTANTS TIER, SEEDS, SEED
VARIABLES mode, n

Pfx(k) == RE.prefix[k]
A == LAtom("", "a")
AtomsL == {LAtom("", "a"), LAtom("", "b1"), LAtom("", "go-to"), LAtom(Pfx("VariableIndependent"), "x"), LAtom(Pfx("VariableDependent"), "y1"),
           LAtom("", "名２"), LAtom("", "x²"), LAtom(Pfx("Operator"), "n٣"), LAtom(Pfx("VariableQuery"), "½"), LAtom("", "é"), LAtom("", Rep("ab", 20)), LAtom("", Rep("name", 20)), LAtom(Pfx("Operator"), Rep("x", 65)),
           LAtom(Pfx("Interval"), "12345678901234567890123"), LAtom(Pfx("VariableIndependent"), "1"),
           LAtom(Pfx("VariableQuery"), "z"), LAtom(Pfx("Interval"), "7"), LAtom(Pfx("Operator"), "op"), LAtom(Pfx("Placeholder"), "")}
Pool2 == {A, LAtom(Pfx("VariableIndependent"), "x")}
ListsUpTo(P, m) == UNION {[1..j -> P] : j \in 1..m}
Conns == {RE.conn[k] : k \in ConnKinds}
Cops == {RE.cop[k] : k \in CopKinds}
SetBrs == {<<RE.se_l, RE.se_r>>, <<RE.si_l, RE.si_r>>}
Wide == {LCompound(c, [i \in 1..m |-> LAtom("", "w" \o ToString(i))]) : c \in Conns, m \in {5, 9, 17}}
        \cup {LSet(b[1], b[2], [i \in 1..m |-> LAtom("", "名２")]) : b \in SetBrs, m \in {5, 12}}
L1 == {LCompound(c, ts) : c \in Conns, ts \in ListsUpTo(Pool2, IF TIER = "thorough" THEN 4 ELSE 3)} \cup Wide
      \cup {LSet(b[1], b[2], ts) : b \in SetBrs, ts \in ListsUpTo(Pool2, 3)}
      \cup {LStatement(c, s, p) : c \in Cops, s \in Pool2, p \in Pool2}
Kids2 == {LCompound(RE.conn["Product"], <<A, LAtom("", "b1")>>), LSet(RE.se_l, RE.se_r, <<A>>), LStatement(RE.cop["Inheritance"], A, LAtom("", "b1")),
          LAtom("", "b1"), LAtom(Pfx("Placeholder"), ""), LAtom(Pfx("Interval"), "7")}
L2 == {LCompound(c, ts) : c \in Conns, ts \in ListsUpTo(Kids2, 2)}
      \cup {LSet(b[1], b[2], ts) : b \in SetBrs, ts \in ListsUpTo(Kids2, 2)}
      \cup {LStatement(c, s, p) : c \in Cops, s \in Kids2, p \in Kids2}
TermsL == AtomsL \cup L1 \cup (IF TIER = "thorough" THEN L2 ELSE Sample(L2, 4, SEED))

\* sentences / tasks: what the term ends with x punctuation x stamp form x truth entries x budget entries
Ends == {A, LAtom("", "b1"), LAtom(Pfx("Placeholder"), ""), LAtom(Pfx("Interval"), "7"), LSet(RE.si_l, RE.si_r, <<A>>),
         LStatement(RE.cop["Similarity"], A, LAtom(Pfx("VariableQuery"), "z")), LCompound(RE.conn["Negation"], <<A>>)}
StampForms == {"", RE.stamp_l \o RE.stamp["Past"] \o RE.stamp_r, RE.stamp_l \o RE.stamp["Present"] \o RE.stamp_r,
               RE.stamp_l \o RE.stamp["Future"] \o RE.stamp_r, RE.stamp_l \o RE.stamp["Fixed"] \o "-1" \o RE.stamp_r,
               RE.stamp_l \o RE.stamp["Fixed"] \o "+137" \o RE.stamp_r, RE.stamp_l \o RE.stamp["Fixed"] \o "0" \o RE.stamp_r,
               RE.stamp_l \o RE.stamp["Fixed"] \o "-123456789012345678901" \o RE.stamp_r}
TruthsL == {<<>>, <<"1">>, <<"0.5", "0.9">>, <<".5", "1.">>, <<"007.50", "0.10">>, <<".5", "1.", "0.25">>, <<"0.0000001", "0.123456789012345678", "1", "0">>}
BudgetsL == {<<>>, <<"0.5">>, <<"1", "0">>, <<".5", "1.", "00">>, <<"0.5", "0.75", "0.4">>, <<"1", "1", "1", "1">>}
SentencesL == {[term |-> t, punctuation |-> RE.punct[p], stamp |-> st, truth |-> tr] : t \in Ends, p \in PunctKinds, st \in StampForms, tr \in TruthsL}
Vals == {[kind |-> "term", v |-> t] : t \in TermsL}
        \cup {[kind |-> "sentence", v |-> s] : s \in SentencesL}
        \cup {[kind |-> "task", v |-> [budget |-> b, sentence |-> s]] : b \in BudgetsL, s \in (IF TIER = "thorough" THEN SentencesL ELSE Sample(SentencesL, 6, SEED))}

Init == mode = "seed" /\ n \in 1..SEEDS
Next == mode = "seed" /\ mode' = "case" /\ n' \in {1}        \* (values hold non-ASCII keyword strings: they are kept out of the state, see Case)
\* the k-th seed checks and emits its part of the universe from inside the invariant, so that no value is stored in a state
RoundTripAll(k) == \A v \in Part(Vals, k, SEEDS) : LET r == LexParse(LFmt(v)) IN r.r = "ok" /\ r.v = v /\ r.lenOK
EmitAll(k) == \A v \in Part(Vals, k, SEEDS) : PrintT(<<"CMD", ToJson([op |-> "rt_lex", fmt |-> FmtName, v |-> v])>>)
RoundTrip == mode = "seed" => RoundTripAll(n)
Emit == mode = "seed" => EmitAll(n)
Spec == Init /\ [][Next]_<<mode, n>>
=============================================================================
