----------------------------- MODULE J_Translate -----------------------------
(* Judge for X02 (beyond the listed properties): a well-formed value whose names are legal in
   every format survives  format_F ; parse_F ; format_G ; parse_G ; format_F ; parse_F  for all
   ordered pairs of formats (F, G), and  format(parse(format(v)))  is the text of  format(v)  up to
   the order of unordered components (same length, same multiset of characters). *)
EXTENDS Values, Json, IOUtils, TLC, TLCExt

Obs == ndJsonDeserialize(IOEnv.NV_OBS)
VARIABLE l
V(b, tag) == IF b THEN {} ELSE {tag}
HasF(r, f) == f \in DOMAIN r

Same(r, v) == r.r = "ok" /\ J2N(r.v) = v
Viol(o) ==
  IF o.o.build # "ok" THEN {"build-fail"} ELSE
  LET v == J2N(o.c.v) IN
  V(Same(o.o.p1, v), "source-format-round-trip")
  \cup (IF HasF(o.o, "p2") THEN V(Same(o.o.p2, v), "translation-changes-value") \cup V(o.o.refmt_len_same /\ o.o.refmt_bag_same, "format-parse-format-not-idempotent") ELSE {})
  \cup (IF HasF(o.o, "p3") THEN V(Same(o.o.p3, v), "translation-back-changes-value") \cup V(o.o.eq12, "translated-value-compares-unequal") ELSE {})

Init == l = 1
Next == /\ l <= Len(Obs)
        /\ l' = l + 1
        /\ LET v == Viol(Obs[l]) IN v = {} \/ PrintT(<<"BAD", Obs[l].id, v>>)
Done == /\ TLCGet("stats").diameter - 1 = Len(Obs)
        /\ PrintT(<<"JUDGED", Len(Obs)>>)
=============================================================================
