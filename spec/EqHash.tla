-------------------------------- MODULE EqHash --------------------------------
(* M4: equality and hashing of enum terms whose unordered components live in HashSets with a
   per-instance random state.  A BUILT term (b-term) is a term in which every set node carries
   the sequence `it` in which that instance happens to iterate -- hidden state of the code, a
   nondeterministic choice in the model.  PartialEq and Hash are transcribed on b-terms:
     - HashSet == HashSet: same length, and every element of one is found BY HASH in the other;
     - Hash (repaired tree): element hashes of a set, and the two operand hashes of a symmetric
       statement, are combined commutatively (a bag); everything else is fed in stored order.
   ORDERED_HASH = TRUE is the pinned tree (iteration order / stored order fed to the hasher) and
   is kept as the negative control: TLC must then find {{a,b}} vs {{b,a}} and <a<->b> vs <b<->a>. *)
EXTENDS Values, SequencesExt

CONSTANT ORDERED_HASH

SetB == {"SetExt", "Conj"}                 \* two set-like kinds are enough to tell constructors apart
SymB == {"Sim"}
RECURSIVE Canon(_), HS(_), EqI(_, _)
Canon(t) == CASE t.k = "Word" -> t
              [] t.k \in SetB -> [k |-> t.k, s |-> {Canon(t.it[i]) : i \in 1..Len(t.it)}]
              [] t.k \in SymB -> [k |-> t.k, p |-> {Canon(t.a), Canon(t.b)}]
              [] OTHER -> [k |-> t.k, a |-> Canon(t.a), b |-> Canon(t.b)]
BagOf(q) == [x \in Rng(q) |-> Cardinality({i \in 1..Len(q) : q[i] = x})]
\* what impl Hash feeds to the hasher, as a value: equal values <=> equal hashes under any fixed hasher
\* (up to collisions, which can only make more things "found", never fewer)
HS(t) == CASE t.k = "Word" -> [h |-> "w", n |-> t.n]
           [] t.k \in SetB -> IF ORDERED_HASH THEN [h |-> "seq", q |-> [i \in 1..Len(t.it) |-> HS(t.it[i])]]
                              ELSE [h |-> "bag", len |-> Len(t.it), b |-> BagOf([i \in 1..Len(t.it) |-> HS(t.it[i])])]
           [] t.k \in SymB -> IF ORDERED_HASH THEN [h |-> "seq", q |-> <<HS(t.a), HS(t.b)>>]
                              ELSE [h |-> "bag", len |-> 2, b |-> BagOf(<<HS(t.a), HS(t.b)>>)]
           [] OTHER -> [h |-> "seq", q |-> <<HS(t.a), HS(t.b)>>]
EqI(x, y) == IF x.k # y.k THEN FALSE
             ELSE CASE x.k = "Word" -> x.n = y.n
                    [] x.k \in SetB -> /\ Len(x.it) = Len(y.it)
                                       /\ \A i \in 1..Len(x.it) : \E j \in 1..Len(y.it) : HS(x.it[i]) = HS(y.it[j]) /\ EqI(x.it[i], y.it[j])
                    [] x.k \in SymB -> (EqI(x.a, y.a) /\ EqI(x.b, y.b)) \/ (EqI(x.a, y.b) /\ EqI(x.b, y.a))
                    [] OTHER -> EqI(x.a, y.a) /\ EqI(x.b, y.b)

Perms(S) == {p \in [1..Cardinality(S) -> S] : \A i, j \in 1..Cardinality(S) : i # j => p[i] # p[j]}
\* all b-terms of depth <= d over two words: every set node in every iteration order
RECURSIVE BTerms(_)
BTerms(d) == IF d = 0 THEN {[k |-> "Word", n |-> n] : n \in {"a", "b"}}
             ELSE LET P == BTerms(d - 1) IN
                  P \cup {[k |-> kd, it |-> p] : kd \in SetB, p \in UNION {Perms(S) : S \in {{x} : x \in P} \cup {{x, y} : x \in P, y \in P}}}
                    \cup {[k |-> "Sim", a |-> x, b |-> y] : x \in P, y \in P}
                    \cup {[k |-> "Inh", a |-> x, b |-> y] : x \in P, y \in P}
=============================================================================
