-------------------------------- MODULE J_Trace --------------------------------
(* Trace validation of M1 (DESIGN 6.3).  The instrumented ParseState (hooks under
   `--cfg narsese_verif`) emits one event per transition: `reset` with the slots the previous
   input left behind, `build` with length / cursor / slots, `item_begin` / `item_end` around
   every consume_one with the cursor and the slots, `error` with the cursor of every error that
   is constructed (also those of branches that fail before another one succeeds), `assemble`.
   An observation is one parse_multi batch (or one parse) with its events; the judge requires
   the recorded event sequence to be EXACTLY the one the specification's machine produces for
   the same inputs: every cursor, every slot set, every error cursor, in order. *)
EXTENDS EnumParser, TLCExt

Obs == ndJsonDeserialize(IOEnv.NV_OBS)
VARIABLE l
V(b, tag) == IF b THEN {} ELSE {tag}

\* events of a batch: per input a reset (slots left by the previous input; the first input of parse_multi follows the
\* construction of the state with an empty environment), then the events of that run from cleared slots
RECURSIVE BatchEvents(_, _, _)
BatchEvents(inputs, i, prevMid) ==
  IF i > Len(inputs) THEN <<>>
  ELSE LET e == Chars(inputs[i])
           run == Run(e, EmptyMid)
       IN <<[ev |-> "reset", left |-> SlotStr(prevMid)]>> \o EventsOf(e, run) \o BatchEvents(inputs, i + 1, run.mid)
Norm(ev) == CASE ev.ev = "reset" -> [ev |-> "reset", left |-> ev.left]
              [] ev.ev = "build" -> [ev |-> "build", len |-> ev.len, head |-> ev.head, slots |-> ev.slots]
              [] ev.ev = "item_begin" -> [ev |-> "item_begin", head |-> ev.head]
              [] ev.ev = "item_end" -> [ev |-> "item_end", head |-> ev.head, slots |-> ev.slots]
              [] ev.ev = "error" -> [ev |-> "error", index |-> ev.index, len |-> ev.len]
              [] ev.ev = "assemble" -> [ev |-> "assemble", head |-> ev.head, slots |-> ev.slots]
              [] OTHER -> [ev |-> "unknown"]
Known(s) == \A i \in 1..Len(s) : s[i] \in Alphabet
FirstDiff(a, b) == LET n == Min2(Len(a), Len(b))
                       S == {i \in 1..n : a[i] # b[i]}
                   IN IF S = {} THEN n + 1 ELSE CHOOSE i \in S : \A j \in S : i <= j
\* the trace is binding evidence for M1; a mismatch is DRIFT (model and code disagree), the verdict of the
\* properties comes from the outcome-level judges
Viol(o) == V("events" \in DOMAIN o.o, "no-events")
Drift(o) ==
  IF "events" \notin DOMAIN o.o \/ \E i \in 1..Len(o.c.inputs) : ~Known(Chars(o.o.inputs[i])) THEN {}
  ELSE LET want == BatchEvents(o.o.inputs, 1, EmptyMid)
           got == [i \in 1..Len(o.o.events) |-> Norm(o.o.events[i])]
       IN IF want = got THEN {} ELSE {"trace-differs-at-event-" \o ToString(FirstDiff(want, got))}

Init == l = 1
Next == /\ l <= Len(Obs)
        /\ l' = l + 1
        /\ LET v == Viol(Obs[l]) IN v = {} \/ PrintT(<<"BAD", Obs[l].id, v>>)
        /\ LET d == Drift(Obs[l]) IN d = {} \/ PrintT(<<"DRIFT", Obs[l].id, d>>)
Done == /\ TLCGet("stats").diameter - 1 = Len(Obs)
        /\ PrintT(<<"JUDGED", Len(Obs)>>)
=============================================================================
