------------------------------- MODULE Options -------------------------------
(* M9 (beyond the listed properties): NarseseOptions, the five optional slots that both parsers
   fill, as a state machine.  A state is the set of filled slots (slot i holds the value i when
   filled, 0 stands for None); every public operation is an action with a result. *)
EXTENDS Naturals, Sequences, FiniteSets

Slots == 1..5                     \* 1 budget, 2 term, 3 punctuation, 4 stamp, 5 truth
Val(S, i) == IF i \in S THEN i ELSE 0
OpNames == {"take_budget", "take_term", "take_punctuation", "take_stamp", "take_truth", "take",
            "has_sentence", "has_task", "take_sentence", "take_task", "clone_eq"}
SlotOf(op) == CASE op = "take_budget" -> 1 [] op = "take_term" -> 2 [] op = "take_punctuation" -> 3 [] op = "take_stamp" -> 4 [] op = "take_truth" -> 5

\* Step(S, op) = [res |-> sequence of numbers, s |-> slots afterwards]
Step(S, op) ==
  CASE op \in {"take_budget", "take_term", "take_punctuation", "take_stamp", "take_truth"} ->
         [res |-> <<Val(S, SlotOf(op))>>, s |-> S \ {SlotOf(op)}]
    [] op = "take" -> [res |-> [i \in 1..5 |-> Val(S, i)], s |-> {}]
    [] op = "has_sentence" -> [res |-> <<IF {2, 3} \subseteq S THEN 1 ELSE 0>>, s |-> S]
    [] op = "has_task" -> [res |-> <<IF {1, 2, 3} \subseteq S THEN 1 ELSE 0>>, s |-> S]
    [] op = "take_sentence" -> IF {2, 3} \subseteq S THEN [res |-> <<1, 2, 3, Val(S, 4), Val(S, 5)>>, s |-> S \ {2, 3, 4, 5}]     \* the budget stays
                               ELSE [res |-> <<0>>, s |-> S]                                                                   \* nothing is taken
    [] op = "take_task" -> IF {1, 2, 3} \subseteq S THEN [res |-> <<1, 1, 2, 3, Val(S, 4), Val(S, 5)>>, s |-> {}]
                           ELSE [res |-> <<0>>, s |-> S]
    [] op = "clone_eq" -> [res |-> <<1>>, s |-> S]
SlotString(S) == [i \in 1..5 |-> IF i \in S THEN "1" ELSE "0"]
=============================================================================
