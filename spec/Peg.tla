--------------------------------- MODULE Peg ---------------------------------
(* C11: the "Standard ASCII Lexicon" PEG of README.md, transcribed rule by rule with PEG
   semantics: ordered choice, greedy repetition, !-lookahead, and pest's implicit WHITESPACE
   between the `~` of NON-atomic rules only.  Every recogniser returns [ok, j, t]: j is the
   0-based position after the match, t the derivation tree in the shape of a lexical value
   (LexValues.tla), so that it can be compared with what the library's lexical parser returns.
   This module does not read the code's vocabulary: PublishedAscii below is the lexicon the
   README refers to, written out. *)
EXTENDS Sequences, Naturals, FiniteSets, TLC

PChars(s) == [i \in 1..Len(s) |-> SubSeq(s, i, i)]
PRng(s) == {s[i] : i \in 1..Len(s)}
RECURSIVE PStr(_)
PStr(cs) == IF cs = <<>> THEN "" ELSE cs[1] \o PStr(Tail(cs))

\* Unicode PUNCTUATION | SYMBOL restricted to ASCII
\*   P*: ! " # % & ' ( ) * , - . / : ; ? @ [ \ ] _ { }      S*: $ + < = > ^ ` | ~
PS == PRng(PChars("!\"#%&'()*,-./:;?@[\\]_{}$+<=>^`|~"))
Digit == PRng(PChars("0123456789"))
Letter == PRng(PChars("abcdefghijklmnopqrstuvwxyzABCDEFGHIJKLMNOPQRSTUVWXYZ")) \cup {"词", "项", "名", "甲", "乙", "é", "Ω"}
\* Unicode NUMBER (Nd, Nl, No) beyond the ASCII digits, for the characters of the working alphabet
OtherNumber == {"²", "２", "٣", "½", "①", "Ⅷ"}
AtomChar == Letter \cup Digit \cup OtherNumber \cup {"_", "-"}          \* LETTER | NUMBER | "_" | "-"
WhiteSpace == {" ", "\t", "\n", "\r"}

At(e, j) == IF j < Len(e) THEN e[j + 1] ELSE "<eof>"
No == [ok |-> FALSE, j |-> 0]
RECURSIVE WS(_, _)
WS(e, j) == IF At(e, j) \in WhiteSpace THEN WS(e, j + 1) ELSE j
Txt(e, a, b) == PStr(SubSeq(e, a + 1, b))               \* characters a .. b-1 as a string

\* copula = @{ ps "-" ps | ps "=" ps | "=" ps ">" | "<" ps ">" }
Copula(e, j) ==
  LET c0 == At(e, j)  c1 == At(e, j + 1)  c2 == At(e, j + 2)
      hit == \/ (c0 \in PS /\ c1 = "-" /\ c2 \in PS)
             \/ (c0 \in PS /\ c1 = "=" /\ c2 \in PS)
             \/ (c0 = "=" /\ c1 \in PS /\ c2 = ">")
             \/ (c0 = "<" /\ c1 \in PS /\ c2 = ">")
  IN IF hit THEN [ok |-> TRUE, j |-> j + 3, t |-> Txt(e, j, j + 3)] ELSE No

\* atom_content = @{ atom_char ~ (!copula ~ atom_char)* }
RECURSIVE ContentEnd(_, _)
ContentEnd(e, j) == IF ~Copula(e, j).ok /\ At(e, j) \in AtomChar THEN ContentEnd(e, j + 1) ELSE j
AtomContent(e, j) == IF At(e, j) \in AtomChar THEN LET k == ContentEnd(e, j + 1) IN [ok |-> TRUE, j |-> k, t |-> Txt(e, j, k)] ELSE No
\* atom_prefix = @{ ps+ }
RECURSIVE PsEnd(_, _)
PsEnd(e, j) == IF At(e, j) \in PS THEN PsEnd(e, j + 1) ELSE j
\* "_"+  (non-atomic context: whitespace may separate the underscores)
RECURSIVE Underscores(_, _)
Underscores(e, j) == IF At(e, WS(e, j)) = "_" THEN Underscores(e, WS(e, j) + 1) ELSE j
LAtomP(p, n) == [k |-> "Atom", prefix |-> p, name |-> n]
\* atom = { "_"+ | atom_prefix ~ atom_content | atom_content }
Atom(e, j) ==
  IF At(e, j) = "_" THEN LET k == Underscores(e, j + 1) IN [ok |-> TRUE, j |-> k, t |-> LAtomP("_", "")]
  ELSE LET p == PsEnd(e, j) IN
       IF p > j /\ AtomContent(e, WS(e, p)).ok
       THEN LET c == AtomContent(e, WS(e, p)) IN [ok |-> TRUE, j |-> c.j, t |-> LAtomP(Txt(e, j, p), c.t)]
       ELSE LET c == AtomContent(e, j) IN IF c.ok THEN [ok |-> TRUE, j |-> c.j, t |-> LAtomP("", c.t)] ELSE No

\* connecter = @{ ps ~ (!"," ~ ps)* }
RECURSIVE ConnEnd(_, _)
ConnEnd(e, j) == IF At(e, j) # "," /\ At(e, j) \in PS THEN ConnEnd(e, j + 1) ELSE j
Connecter(e, j) == IF At(e, j) \in PS THEN LET k == ConnEnd(e, j + 1) IN [ok |-> TRUE, j |-> k, t |-> Txt(e, j, k)] ELSE No

RECURSIVE Term(_, _), MoreTerms(_, _, _)
\* ("," ~ term)*
MoreTerms(e, j, acc) ==
  LET j1 == WS(e, j) IN
  IF At(e, j1) = "," THEN LET r == Term(e, WS(e, j1 + 1)) IN IF r.ok THEN MoreTerms(e, r.j, Append(acc, r.t)) ELSE [j |-> j, ts |-> acc]
  ELSE [j |-> j, ts |-> acc]
\* "{" ~ term ~ ("," ~ term)* ~ "}"   and the same with [ ]
Bracketed(e, j, l, r) ==
  IF At(e, j) # l THEN No ELSE
  LET t1 == Term(e, WS(e, j + 1)) IN IF ~t1.ok THEN No ELSE
  LET m == MoreTerms(e, t1.j, <<t1.t>>)  j2 == WS(e, m.j) IN
  IF At(e, j2) = r THEN [ok |-> TRUE, j |-> j2 + 1, t |-> [k |-> "Set", left |-> l, right |-> r, terms |-> m.ts]] ELSE No
\* compound = { "(" ~ connecter ~ "," ~ term ~ ("," ~ term)* ~ ")" | "{" ... "}" | "[" ... "]" }
Compound(e, j) ==
  LET viaConn ==
        IF At(e, j) # "(" THEN No ELSE
        LET c == Connecter(e, WS(e, j + 1)) IN IF ~c.ok THEN No ELSE
        LET j1 == WS(e, c.j) IN IF At(e, j1) # "," THEN No ELSE
        LET t1 == Term(e, WS(e, j1 + 1)) IN IF ~t1.ok THEN No ELSE
        LET m == MoreTerms(e, t1.j, <<t1.t>>)  j2 == WS(e, m.j) IN
        IF At(e, j2) = ")" THEN [ok |-> TRUE, j |-> j2 + 1, t |-> [k |-> "Compound", connecter |-> c.t, terms |-> m.ts]] ELSE No
  IN IF viaConn.ok THEN viaConn
     ELSE LET se == Bracketed(e, j, "{", "}") IN IF se.ok THEN se ELSE Bracketed(e, j, "[", "]")
\* statement = { "<" ~ term ~ copula ~ term ~ ">" }
Statement(e, j) ==
  IF At(e, j) # "<" THEN No ELSE
  LET s == Term(e, WS(e, j + 1)) IN IF ~s.ok THEN No ELSE
  LET c == Copula(e, WS(e, s.j)) IN IF ~c.ok THEN No ELSE
  LET p == Term(e, WS(e, c.j)) IN IF ~p.ok THEN No ELSE
  LET j2 == WS(e, p.j) IN
  IF At(e, j2) = ">" THEN [ok |-> TRUE, j |-> j2 + 1, t |-> [k |-> "Statement", copula |-> c.t, subject |-> s.t, predicate |-> p.t]] ELSE No
\* term = { statement | compound | atom }
Term(e, j) == LET s == Statement(e, j) IN IF s.ok THEN s ELSE
              LET c == Compound(e, j) IN IF c.ok THEN c ELSE Atom(e, j)

\* truth_budget_term = @{ (ASCII_DIGIT | ".")+ }
RECURSIVE NumEnd(_, _)
NumEnd(e, j) == IF At(e, j) \in Digit \cup {"."} THEN NumEnd(e, j + 1) ELSE j
Tbt(e, j) == LET k == NumEnd(e, j) IN IF k > j THEN [ok |-> TRUE, j |-> k, t |-> Txt(e, j, k)] ELSE No
RECURSIVE MoreNums(_, _, _), Semis(_, _)
MoreNums(e, j, acc) == LET j1 == WS(e, j) IN
  IF At(e, j1) = ";" /\ Tbt(e, WS(e, j1 + 1)).ok THEN LET r == Tbt(e, WS(e, j1 + 1)) IN MoreNums(e, r.j, Append(acc, r.t)) ELSE [j |-> j, ns |-> acc]
Semis(e, j) == LET j1 == WS(e, j) IN IF At(e, j1) = ";" THEN Semis(e, j1 + 1) ELSE j
\* truth_budget_term ~ (";" ~ truth_budget_term)* ~ ";"*
NumList(e, j) == LET t1 == Tbt(e, j) IN IF ~t1.ok THEN No ELSE LET m == MoreNums(e, t1.j, <<t1.t>>) IN [ok |-> TRUE, j |-> Semis(e, m.j), t |-> m.ns]
Truth(e, j) == IF At(e, j) # "%" THEN No ELSE LET n == NumList(e, WS(e, j + 1)) IN IF ~n.ok THEN No ELSE
               LET j2 == WS(e, n.j) IN IF At(e, j2) = "%" THEN [ok |-> TRUE, j |-> j2 + 1, t |-> n.t] ELSE No
\* budget = { "$" ~ budget_content ~ "$" } ; budget_content = { numlist | "" }
Budget(e, j) == IF At(e, j) # "$" THEN No ELSE
                LET n == NumList(e, WS(e, j + 1))
                    j1 == IF n.ok THEN WS(e, n.j) ELSE WS(e, j + 1)
                IN IF At(e, j1) = "$" THEN [ok |-> TRUE, j |-> j1 + 1, t |-> IF n.ok THEN n.t ELSE <<>>] ELSE No
\* stamp = { ":" ~ (!":" ~ ANY)+ ~ ":" }
RECURSIVE StampEnd(_, _)
StampEnd(e, j) == IF At(e, j) # ":" /\ At(e, j) # "<eof>" THEN StampEnd(e, j + 1) ELSE j
Stamp(e, j) == IF At(e, j) # ":" THEN No ELSE LET k == StampEnd(e, j + 1) IN
               IF k > j + 1 /\ At(e, k) = ":" THEN [ok |-> TRUE, j |-> k + 1, t |-> Txt(e, j, k + 1)] ELSE No
\* sentence = { term ~ punctuation ~ stamp? ~ truth? }
Sentence(e, j) ==
  LET t == Term(e, j) IN IF ~t.ok THEN No ELSE
  LET jp == WS(e, t.j) IN IF ~(At(e, jp) \in PS) THEN No ELSE
  LET st == Stamp(e, WS(e, jp + 1))
      j2 == IF st.ok THEN st.j ELSE jp + 1
      tr == Truth(e, WS(e, j2))
      j3 == IF tr.ok THEN tr.j ELSE j2
  IN [ok |-> TRUE, j |-> j3, t |-> [term |-> t.t, punctuation |-> At(e, jp), stamp |-> IF st.ok THEN st.t ELSE "", truth |-> IF tr.ok THEN tr.t ELSE <<>>]]
\* task = { budget ~ sentence }
Task(e, j) == LET b == Budget(e, j) IN IF ~b.ok THEN No ELSE LET s == Sentence(e, WS(e, b.j)) IN IF ~s.ok THEN No ELSE
              [ok |-> TRUE, j |-> s.j, t |-> [budget |-> b.t, sentence |-> s.t]]
\* narsese = { task | sentence | term } ; the whole text must be derived
Narsese(e) ==
  LET tk == Task(e, 0)  se == Sentence(e, 0)  te == Term(e, 0)
      r == IF tk.ok THEN [kind |-> "task", j |-> tk.j, v |-> tk.t] ELSE IF se.ok THEN [kind |-> "sentence", j |-> se.j, v |-> se.t]
           ELSE IF te.ok THEN [kind |-> "term", j |-> te.j, v |-> te.t] ELSE [kind |-> "reject", j |-> 0, v |-> <<>>]
  IN IF r.kind # "reject" /\ WS(e, r.j) = Len(e) THEN [kind |-> r.kind, v |-> r.v] ELSE [kind |-> "reject", v |-> <<>>]

\* ---------------------------------------------------------------- the published lexicon (OpenNARS-compatible)
PublishedAscii == [
  prefix |-> [Word |-> "", Placeholder |-> "_", VariableIndependent |-> "$", VariableDependent |-> "#", VariableQuery |-> "?",
              Interval |-> "+", Operator |-> "^"],
  comp_l |-> "(", comp_r |-> ")", sep |-> ",", se_l |-> "{", se_r |-> "}", si_l |-> "[", si_r |-> "]",
  conn |-> [IntersectionExtension |-> "&", IntersectionIntension |-> "|", DifferenceExtension |-> "-", DifferenceIntension |-> "~",
            Product |-> "*", ImageExtension |-> "/", ImageIntension |-> "\\", Conjunction |-> "&&", Disjunction |-> "||", Negation |-> "--",
            ConjunctionSequential |-> "&/", ConjunctionParallel |-> "&|"],
  st_l |-> "<", st_r |-> ">",
  cop |-> [Inheritance |-> "-->", Similarity |-> "<->", Implication |-> "==>", Equivalence |-> "<=>", Instance |-> "{--", Property |-> "--]",
           InstanceProperty |-> "{-]", ImplicationPredictive |-> "=/>", ImplicationConcurrent |-> "=|>", ImplicationRetrospective |-> "=\\>",
           EquivalencePredictive |-> "</>", EquivalenceConcurrent |-> "<|>", EquivalenceRetrospective |-> "<\\>"],
  punct |-> [Judgement |-> ".", Goal |-> "!", Question |-> "?", Quest |-> "@"],
  stamp_l |-> ":", stamp_r |-> ":", stamp |-> [Fixed |-> "!", Past |-> "\\", Present |-> "|", Future |-> "/"],
  truth_l |-> "%", truth_r |-> "%", truth_sep |-> ";", bud_l |-> "$", bud_r |-> "$", bud_sep |-> ";" ]
=============================================================================
