-------------------------------- MODULE J_C06 --------------------------------
(* Judge for C06 (NV_PROP = C06) and C07 (NV_PROP = C07) on recipe pairs built by the real code,
   several times each (every repetition gives every HashSet a fresh random state). *)
EXTENDS Values, Json, IOUtils, TLCExt

Obs == ndJsonDeserialize(IOEnv.NV_OBS)
Prop == IOEnv.NV_PROP
VARIABLE l
V(b, tag) == IF b THEN {} ELSE {tag}

\* a recipe denotes the canonical value of its JSON (duplicates collapse, operand order of symmetric statements vanishes)
RepViol06(r, same) ==
  V(r.ab = same, IF same THEN "equal-terms-compare-unequal" ELSE "different-terms-compare-equal")
  \cup V(r.ba = r.ab, "not-symmetric") \cup V(r.aa /\ r.bb, "not-reflexive") \cup V(r.ab_again, "answer-changes-after-use")
  \cup V(r.sentence_eq = same /\ r.narsese_eq = same, "derived-eq-differs")
\* C07 speaks of terms that COMPARE equal: both the canonically equal pairs and the pairs the real == calls equal
RepViol07(r, same) ==
  V(r.ha_again, "hash-changes-after-use") \cup V(r.aa => r.h_clone_eq, "clone-hashes-differently") \cup
  IF ~(same \/ r.ab) THEN {} ELSE
  V(r.ha = r.hb, "equal-terms-hash-differently") \cup V(r.hr_eq, "equal-terms-hash-differently-random-hasher")
  \cup V(r.ha = r.hb_other_thread, "equal-terms-hash-differently-across-threads")
  \cup V(r.contains, "hashset-misses-equal-term") \cup V(r.map_get, "hashmap-misses-equal-key")

EqHashViol(o) ==
  IF "reps" \notin DOMAIN o.o THEN {"build-fail"} ELSE
  LET same == J2V(o.c.a) = J2V(o.c.b)
      reps == o.o.reps
  IN UNION {(IF Prop = "C06" THEN RepViol06(reps[i], same) ELSE RepViol07(reps[i], same))
            \cup (IF reps[i].pa.k = "same" THEN {} ELSE V(J2V(reps[i].pa) = J2V(o.c.a) /\ J2V(reps[i].pb) = J2V(o.c.b), "harness-built-other-value")) : i \in 1..Len(reps)}
     \cup (IF Prop = "C06" THEN V(\A i \in 1..Len(reps) : reps[i].ab = reps[1].ab, "unstable-across-constructions") ELSE {})

Eq3Viol(o) ==
  LET a == J2V(o.c.a) b == J2V(o.c.b) c == J2V(o.c.c) r == o.o IN
  V(r.ab = (a = b) /\ r.bc = (b = c) /\ r.ac = (a = c), "not-semantic")
  \cup V(r.ab = r.ba /\ r.bc = r.cb /\ r.ac = r.ca, "not-symmetric")
  \cup V((r.ab /\ r.bc) => r.ac, "not-transitive")
ParseTwiceViol(o) ==
  IF ~o.o.both_ok THEN V(o.o.a_ok = o.o.b_ok, "parse-twice-verdicts-differ")
  ELSE IF Prop = "C06" THEN V(o.o.eq /\ o.o.eq_rev, "two-parses-unequal") \cup V(J2N(o.o.pa) = J2N(o.o.pb), "two-parses-differ")
  ELSE V(o.o.h_eq, "two-parses-hash-differently") \cup V(o.o.contains, "hashset-misses-second-parse")

Viol(o) == CASE o.c.op = "eqhash" -> EqHashViol(o)
             [] o.c.op = "eq3" -> (IF Prop = "C06" THEN Eq3Viol(o) ELSE {})
             [] o.c.op = "eq_parse_twice" -> ParseTwiceViol(o)
             [] OTHER -> {"unknown-op"}

Init == l = 1
Next == /\ l <= Len(Obs)
        /\ l' = l + 1
        /\ LET v == Viol(Obs[l]) IN v = {} \/ PrintT(<<"BAD", Obs[l].id, v>>)
Done == /\ TLCGet("stats").diameter - 1 = Len(Obs)
        /\ PrintT(<<"JUDGED", Len(Obs)>>)
=============================================================================
