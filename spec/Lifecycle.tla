------------------------------ MODULE Lifecycle ------------------------------
(* M3: a Narsese value moving between kinds (C15).  One function serves both data models; `m` is
   "enum" or "lexical" and only selects the field names of a task.  Step(m, n, op) gives the
   observable result and the value afterwards (a failed conversion hands the value back). *)
EXTENDS Values

Res(tag) == [r |-> tag]
MkTask(m, s) == IF m = "enum" THEN [b |-> <<>>, s |-> s] ELSE [budget |-> <<>>, sentence |-> s]
BudgetOf(m, t) == IF m = "enum" THEN t.b ELSE t.budget
SentOf(m, t) == IF m = "enum" THEN t.s ELSE t.sentence
TermIn(m, n) == CASE n.kind = "term" -> n.v
                  [] n.kind = "sentence" -> (IF m = "enum" THEN n.v.t ELSE n.v.term)
                  [] n.kind = "task" -> (IF m = "enum" THEN n.v.s.t ELSE n.v.sentence.term)
N(kind, v) == [kind |-> kind, v |-> v]

TryCast(m, n) == CASE n.kind = "term" -> [res |-> Res("err"), n |-> n]
                   [] n.kind = "sentence" -> [res |-> Res("ok"), n |-> n]
                   [] n.kind = "task" -> IF BudgetOf(m, n.v) = <<>> THEN [res |-> Res("ok"), n |-> N("sentence", SentOf(m, n.v))]
                                          ELSE [res |-> Res("err"), n |-> n]               \* handed back unchanged
Into(n, kind) == IF n.kind = kind THEN [res |-> Res("ok"), n |-> n] ELSE [res |-> Res("err"), n |-> n]

Step(m, n, op) ==
  CASE op = "is" -> [res |-> [r |-> "is", is |-> <<n.kind = "term", n.kind = "sentence", n.kind = "task">>], n |-> n]
    [] op \in {"try_into_term", "std_try_term"} -> Into(n, "term")
    [] op \in {"try_into_sentence", "std_try_sentence"} -> Into(n, "sentence")
    [] op \in {"try_into_task", "std_try_task"} -> Into(n, "task")
    [] op = "try_into_task_compatible" -> (CASE n.kind = "task" -> [res |-> Res("ok"), n |-> n]
                                             [] n.kind = "sentence" -> [res |-> Res("ok"), n |-> N("task", MkTask(m, n.v))]
                                             [] OTHER -> [res |-> Res("err"), n |-> n])
    [] op = "cast_to_task" -> IF n.kind = "sentence" THEN [res |-> Res("ok"), n |-> N("task", MkTask(m, n.v))] ELSE [res |-> Res("na"), n |-> n]
    [] op = "try_cast_to_sentence" -> IF n.kind = "task" THEN TryCast(m, n) ELSE [res |-> Res("na"), n |-> n]
    [] op = "value_try_cast_to_sentence" -> TryCast(m, n)
    [] op = "get_term" -> [res |-> [r |-> "term", term |-> TermIn(m, n)], n |-> n]
    [] op \in {"reparse_ascii", "reparse_latex", "reparse_han"} -> [res |-> Res("reparsed"), n |-> n]     \* format then parse: same kind, same value
Ops == {"is", "try_into_term", "try_into_sentence", "try_into_task", "try_into_task_compatible", "cast_to_task",
        "try_cast_to_sentence", "value_try_cast_to_sentence", "get_term"}
=============================================================================
