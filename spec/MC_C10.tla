------------------------------- MODULE MC_C10 -------------------------------
(* C10 (and the derived-copula half of C03): surface trees with sugar, the text the model
   formatter writes for them, and the value they must denote.  Design level: the model parser
   applied to that text yields Desugar(tree). *)
EXTENDS Sugar, EnumFormat, EnumParser, Universe

CONSTANTS TIER, SEEDS, SEED
VARIABLES mode, n
vars == <<mode, n>>

Ops0 == {W("a"), IV("x"), QV("z"), INT("7"), OP("op"), PH}
OpsPool == Ops0 \cup {SE1(W("c")), SI1(W("c")), SE1(SI1(W("c"))), SI1(SI1(W("c")))} \cup {RepOf(kd) : kd \in {"SetExtension", "SetIntension", "Product", "Inheritance", "Similarity", "Negation", "ImageExtension", "Conjunction"}}
OpsBig == OpsPool \cup (IF TIER = "thorough" THEN U1 ELSE Sample(U1, 9, SEED))

Level1 ==
       {Stmt(kd, a, b) : kd \in Derived, a \in OpsPool, b \in OpsPool}
  \cup {Stmt(kd, a, W("b")) : kd \in Derived, a \in OpsBig} \cup {Stmt(kd, W("a"), b) : kd \in Derived, b \in OpsBig}
  \cup {[k |-> kd, c |-> c] : kd \in ImgKinds, c \in ImgLists({W("a"), W("b"), IV("x")})}
  \cup {[k |-> "IntervalRaw", raw |-> r] : r \in {"0007", "0", "00", "30000", "000018446744073709551615", "7"}}
  \cup {[k |-> "PlaceholderRaw", raw |-> r] : r \in {"abc", "1", "a-b", "_x"}}
  \cup {[k |-> kd, c |-> c] : kd \in SetKinds, c \in {<<W("a"), W("a")>>, <<W("b"), W("a"), W("b")>>, <<IV("x"), W("a")>>}}
\* sugar nested inside every kind of parent (statement operand, compound component, set element)
Inner == {Stmt(kd, W("a"), W("b")) : kd \in Derived} \cup {[k |-> "ImageIntension", c |-> <<W("a"), PH, PH>>], [k |-> "IntervalRaw", raw |-> "007"]}
Level2 ==
       {Stmt(kd, x, y) : kd \in CopKinds, x \in Inner, y \in {W("c")}} \cup {Stmt(kd, W("c"), y) : kd \in CopKinds, y \in Inner}
  \cup {[k |-> kd, c |-> <<x, W("c")>>] : kd \in SetKinds, x \in Inner}
  \cup {[k |-> kd, q |-> <<W("c"), x>>] : kd \in SeqKinds, x \in Inner}
  \cup {[k |-> kd, c |-> <<x, PH, W("c")>>] : kd \in ImgKinds, x \in Inner}
  \cup {[k |-> "Negation", a |-> x] : x \in Inner}
  \cup {[k |-> kd, a |-> x, b |-> W("c")] : kd \in {"DifferenceExtension", "DifferenceIntension"}, x \in Inner}
Trees == Level1 \cup Level2
\* as bare terms, and the derived statements also under every punctuation with a stamp and truth
Wrapped == {AsTerm(t) : t \in Trees}
           \cup {AsSentence(Sentence(t, p, st, tr)) : t \in {Stmt(kd, W("a"), IV("x")) : kd \in Derived}, p \in Puncts,
                 st \in {[k |-> "Eternal"], [k |-> "Present"], [k |-> "Fixed", n |-> "-1"]}, tr \in {<<>>, <<"1", "0.9">>}}
           \cup {AsTask(<<"0.5">>, Sentence(t, "Judgement", [k |-> "Eternal"], <<"1">>)) : t \in {Stmt(kd, IV("x"), W("a")) : kd \in Derived}}

Init == mode = "seed" /\ n \in 1..SEEDS
Next == mode = "seed" /\ mode' = "case" /\ n' \in Part(Wrapped, n, SEEDS)

Text(x) == Render(NarseseToks(x), AllSp(NarseseToks(x), 1))
Dense(x) == Render(NarseseToks(x), AllSp(NarseseToks(x), 0))
Meaning == mode = "case" => /\ Parse(Format(n)) = OkRes(DesugarN(n))
                            /\ Parse(Dense(n)) = OkRes(DesugarN(n))
EmitOne(s, x) == PrintT(<<"CMD", ToJson([op |-> "pipe", fmt |-> FmtName, s |-> s, expect |-> N2J(DesugarN(x)), sugar |-> TRUE])>>)
Wide(x) == Render(NarseseToks(x), AllSp(NarseseToks(x), 2))
Emit == mode = "case" => EmitOne(Format(n), n) /\ EmitOne(Dense(n), n) /\ EmitOne(Text(n), n) /\ EmitOne(Wide(n), n)
Spec == Init /\ [][Next]_vars
=============================================================================
