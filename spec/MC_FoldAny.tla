------------------------------ MODULE MC_FoldAny ------------------------------
(* C05 (second half) and C12 (folded values): ANY lexical value, not only what the lexical parser
   builds: unknown prefixes / connecters / copulas / bracket pairs, every arity 0..3 for every
   connecter, none or several placeholders, non-numeric or out-of-range truth and budget strings,
   malformed stamps and punctuations.  Design level: whatever Fold accepts is well-formed. *)
EXTENDS Fold, Universe

CONSTANTS TIER, SEEDS, SEED
VARIABLES mode, x
vars == <<mode, x>>

\* unknown symbols incl. long ones of mixed character width (error messages that slice bytes)
LongMixed == "x" \o Rep("外交", 7)
LexPrefixPool == {RE.prefix[k] : k \in AtomKinds} \cup {"@@", LongMixed}
AtomsL == {LAtom(p, n) : p \in LexPrefixPool, n \in {"a", "", "7", "18446744073709551616", "x-y"}}
Kids == {LAtom("", "a"), LAtom(RE.prefix["Placeholder"], ""), LAtom(RE.prefix["VariableIndependent"], "x"), LAtom("@@", "u")}
Lists == UNION {[1..m -> Kids] : m \in 0..3}
Conns == {RE.conn[k] : k \in ConnKinds} \cup {"??", LongMixed}
Cops == {RE.cop[k] : k \in CopKinds} \cup {"??", "", LongMixed}
Brs == {<<RE.se_l, RE.se_r>>, <<RE.si_l, RE.si_r>>, <<RE.se_l, RE.si_r>>, <<"(|", "|)">>, <<LongMixed, "é" \o LongMixed>>}
Flat == AtomsL
        \cup {LCompound(c, ts) : c \in Conns, ts \in Lists}
        \cup {LSet(b[1], b[2], ts) : b \in Brs, ts \in Lists}
        \cup {LStatement(c, s, p) : c \in Cops, s \in Kids, p \in Kids}
Nest == {LCompound(RE.conn["Product"], <<y, LAtom("", "a")>>) : y \in Sample(Flat, 7, SEED)}
        \cup {LStatement(RE.cop["Inheritance"], y, LAtom("", "b")) : y \in Sample(Flat, 7, SEED + 3)}
        \cup {LSet(RE.se_l, RE.se_r, <<y>>) : y \in Sample(Flat, 7, SEED + 5)}
TermsL == Flat \cup Nest

FloatPool == {"0.5", "1", "2", "-0.5", "NaN", "inf", "1e-1", "", "abc", "0.5.5", "-0", "+0.5", ".5", "5.", "1e400", " 0.5", "1_0", "٣"}
\* every member of the pool at every position of lists of one to four entries (the other entries valid)
FloatLists == {<<>>} \cup {<<a>> : a \in FloatPool} \cup {<<"0.5", a>> : a \in FloatPool} \cup {<<a, "0.5">> : a \in FloatPool}
              \cup {<<a, "0.5", "1">> : a \in FloatPool} \cup {<<"0.5", a, "1">> : a \in FloatPool} \cup {<<"1", "1", a>> : a \in FloatPool}
              \cup {<<"1", "1", "1", a>> : a \in FloatPool}
StampTexts == {"", RE.stamp_l \o RE.stamp["Past"] \o RE.stamp_r, RE.stamp_l \o RE.stamp["Fixed"] \o "-7" \o RE.stamp_r,
               RE.stamp_l \o RE.stamp["Fixed"] \o RE.stamp_r, RE.stamp_l \o RE.stamp["Fixed"] \o "99999999999999999999" \o RE.stamp_r,
               RE.stamp_l \o RE.stamp["Fixed"] \o "1-2" \o RE.stamp_r, "abc", RE.stamp_l, RE.stamp_l \o RE.stamp["Present"], "::"}
PunctTexts == {RE.punct[k] : k \in PunctKinds} \cup {"", "??", RE.punct["Goal"] \o "x"}
SentTerms == {LAtom("", "a"), LCompound(RE.conn["ImageExtension"], <<LAtom("", "a")>>), LAtom("@@", "u")}
SentencesL == {[term |-> t, punctuation |-> p, stamp |-> st, truth |-> tr] : t \in SentTerms, p \in PunctTexts, st \in StampTexts, tr \in FloatLists}
Wrapped == {[kind |-> "term", v |-> t] : t \in TermsL}
           \cup {[kind |-> "sentence", v |-> s] : s \in (IF TIER = "thorough" THEN SentencesL ELSE Sample(SentencesL, 5, SEED))}
           \cup {[kind |-> "task", v |-> [budget |-> b, sentence |-> s]] : b \in Sample(FloatLists, 2, SEED),
                 s \in Sample(SentencesL, IF TIER = "thorough" THEN 17 ELSE 97, SEED)}

Init == mode = "seed" /\ x \in 1..SEEDS
Next == mode = "seed" /\ mode' = "case" /\ x' \in Part(Wrapped, x, SEEDS)

AcceptedIsWF == mode = "case" => (FoldN(x).r = "ok" => WFFolded(FoldN(x).v))
Emit == mode = "case" => PrintT(<<"CMD", ToJson([op |-> "fold_any", fmt |-> FmtName, v |-> x])>>)
Spec == Init /\ [][Next]_vars
=============================================================================
