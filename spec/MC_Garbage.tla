----------------------------- MODULE MC_Garbage -----------------------------
(* C04 / C05 / C12 design level: the input space of the parsers beyond what the formatters emit.
   Two generator machines share this module:
     tok   every string of at most MAXTOK tokens over a per-format alphabet (every bracket, separator,
           connecters and copulas of every length class, punctuations, stamp and truth / budget parts,
           names, numbers incl. out-of-range and overlong ones) -- grown one token at a time, so every
           prefix is explored too;
     mut   well-formed texts under at most MAXEDITS edits: DeleteToken, DupToken, InsertToken,
           SwapTokens and TruncateAtChar (character granularity: cutting a multi-character keyword).
   On every string the model of M1 is run from all entry points; the invariants are the state
   invariants behind C04 (every error window can be sliced; every successful step advances the
   cursor) and C12 (an accepted value is well-formed). *)
EXTENDS EnumFormat, EnumParser, LexParser, Universe

CONSTANTS MAXTOK, MAXCORE, MAXTINY, MAXEDITS, TIER, SEED
VARIABLES mode, w, edits
vars == <<mode, w, edits>>

Alpha == <<
  F.seL, F.seR, F.siL, F.siR, F.compL, F.compR, F.stL, F.stR, F.sep,
  F.conn["Conjunction"], F.conn["IntersectionExtension"], F.conn["Negation"], F.conn["ImageExtension"], F.conn["DifferenceIntension"],
  F.cop["Inheritance"], F.cop["Instance"], F.cop["ImplicationRetrospective"], F.cop["Similarity"],
  F.punct["Judgement"], F.punct["Goal"], F.punct["Question"], F.punct["Quest"],
  F.stampL \o F.stamp["Fixed"], F.stampL \o F.stamp["Present"] \o F.stampR, IF F.stampR = <<>> THEN F.stamp["Past"] ELSE F.stampR,
  F.truthL, F.truthR, F.truthSep, F.budL, F.budSep,
  F.prefix["Placeholder"], F.prefix["VariableIndependent"], F.prefix["VariableQuery"], F.prefix["Interval"], F.prefix["Operator"],
  <<"a">>, <<"b", "1">>, <<"1">>, <<"0", ".", "5">>, <<"1", ".", "5">>, <<"-", "1">>, <<".">>,
  Chars("99999999999999999999"), <<" ">>, Chars(" in "), Chars(" @ 3 in \""),
  <<"²">>, <<"٣">>, <<"½">>, Chars("1.0000000000000002"), Chars("1.0000000000000001"), Chars("18446744073709551616"), Chars("0.0000001") >>
\* a smaller alphabet for the longest strings
Core == {i \in 1..Len(Alpha) : Alpha[i] \in {F.seL, F.seR, F.compL, F.compR, F.stL, F.stR, F.sep, F.conn["Conjunction"], F.conn["ImageExtension"],
                                               F.cop["Inheritance"], F.punct["Judgement"], F.truthL, F.budL, F.prefix["Placeholder"], <<"a">>, <<"1">>}}

BaseValues == {
  AsTask(<<"0.5", "0.75", "0.4">>, Sentence([k |-> "Implication", a |-> [k |-> "ConjunctionSequential", q |-> <<SE1(W("a")), INT("7")>>],
                                                                  b |-> [k |-> "ImageExtension", i |-> 1, q |-> <<W("a"), IV("x")>>]],
                                            "Judgement", [k |-> "Fixed", n |-> "-1"], <<"1", "0.9">>)),
  AsSentence(Sentence([k |-> "Similarity", p |-> {SI1(W("a")), [k |-> "Negation", a |-> QV("z")]}], "Goal", [k |-> "Present"], <<"1">>)),
  AsSentence(Sentence(OP("op"), "Question", [k |-> "Past"], <<>>)),
  AsTask(<<>>, Sentence([k |-> "Product", q |-> <<W("a"), W("b")>>], "Quest", [k |-> "Eternal"], <<>>)),
  AsTerm([k |-> "DifferenceIntension", a |-> [k |-> "Disjunction", s |-> {W("a"), W("b")}], b |-> DV("y")]) }
Plain(toks) == [i \in 1..Len(toks) |-> toks[i].c]
BaseToks == {Plain(NarseseToks(v)) : v \in BaseValues}
InsertPool == {F.seL, F.compR, F.stL, F.stR, F.sep, F.cop["Inheritance"], F.punct["Judgement"], F.truthL, F.budL, <<"a">>, <<"1">>, <<" ">>}

\* "env": items in their canonical order around one term, with well-formed and ill-formed number lists under EVERY punctuation
\* (a question or quest written with a truth, an out-of-range entry behind a valid one, too many entries, an empty list, a lone dot)
BadLists == {<<>>, <<"1.5">>, <<"0.5", "2">>, <<"-0.5">>, <<"1", "1", "1", "1">>, <<".">>, <<"0.5">>, <<"1", "0.9">>}
FlatToks(toks) == Cat(Plain(toks))
EnvTexts ==
  {Cat(<<(IF b = <<"none">> THEN <<>> ELSE FlatToks(NumToks(b, F.budL, F.budSep, F.budR))),
         FlatToks(TermToks(t)), F.punct[p], sp,
         (IF st.k = "Eternal" THEN <<>> ELSE FlatToks(StampToks(st))), sp,
         (IF tr = <<"none">> THEN <<>> ELSE FlatToks(NumToks(tr, F.truthL, F.truthSep, F.truthR)))>>)
     : b \in {<<"none">>, <<"1.5">>, <<"0.5", "0.5", "7">>, <<"1", "1", "1", "1">>, <<"0.5">>},
       t \in {W("a"), [k |-> "Inheritance", a |-> W("a"), b |-> QV("z")]}, sp \in {<<>>, <<" ">>},
       p \in PunctKinds, st \in {[k |-> "Eternal"], [k |-> "Present"], [k |-> "Fixed", n |-> "5"]}, tr \in BadLists \cup {<<"none">>}}

\* the text of a state: tokens joined; in mut mode `w` is a record [toks, cut] (cut = keep that many characters; 0 = all)
TextOf == IF mode = "env" THEN w ELSE IF mode \in {"tok", "core", "tiny", "item"} THEN Cat([i \in 1..Len(w) |-> Alpha[w[i]]])
          ELSE LET full == Join(w.toks, IF w.spaced THEN <<" ">> ELSE <<>>) IN IF w.cut = 0 THEN full ELSE SubSeq(full, 1, Min2(w.cut, Len(full)))

\* an even smaller alphabet (brackets, one separator, one name) for the deepest strings: cursor overshoot needs many unterminated brackets
Tiny == {i \in 1..Len(Alpha) : Alpha[i] \in {F.seL, F.compL, F.stL, F.stR, F.sep, F.conn["Conjunction"], F.cop["Inheritance"], <<"a">>}}
\* the item-level alphabet: brackets of truth, budget and stamp, a punctuation, a space, one name, one number (error paths of consume_one)
Items == {i \in 1..Len(Alpha) : Alpha[i] \in {F.truthL, F.truthR, F.budL, F.budR, F.punct["Judgement"], F.stampL, F.stampR, <<" ">>, <<"a">>, <<"1">>}}
\* four tracks: "item" over Items up to MAXTINY - 1;  "tok" grows over the whole alphabet up to MAXTOK tokens (the last token from Core in the quick tier),
\* "core" over Core up to MAXCORE, "tiny" over Tiny up to MAXTINY
Init == \/ mode \in {"tok", "core", "tiny", "item"} /\ w = <<>> /\ edits = 0
        \/ mode = "env" /\ w \in EnvTexts /\ edits = 0
        \/ mode = "mut" /\ \E t \in BaseToks : \E sp \in BOOLEAN : w = [toks |-> t, cut |-> 0, spaced |-> sp] /\ edits = 0
Grow == \/ /\ mode = "tok" /\ Len(w) < MAXTOK
           /\ \E i \in 1..Len(Alpha) : (Len(w) < MAXTOK - 1 \/ TIER = "thorough" \/ i \in Core) /\ w' = Append(w, i)
           /\ UNCHANGED <<mode, edits>>
        \/ /\ mode = "core" /\ Len(w) < MAXCORE /\ \E i \in Core : w' = Append(w, i) /\ UNCHANGED <<mode, edits>>
        \/ /\ mode = "tiny" /\ Len(w) < MAXTINY /\ \E i \in Tiny : w' = Append(w, i) /\ UNCHANGED <<mode, edits>>
        \/ /\ mode = "item" /\ Len(w) < MAXTINY - 1 /\ \E i \in Items : w' = Append(w, i) /\ UNCHANGED <<mode, edits>>
Edit == /\ mode = "mut" /\ edits < MAXEDITS /\ w.cut = 0
        /\ LET t == w.toks  m == Len(w.toks)
               second == edits >= 1           \* second edits are restricted to deletion and truncation
           IN \/ \E j \in 1..m : w' = [w EXCEPT !.toks = WithoutAt(t, j)]
              \/ ~second /\ \E j \in 1..m : w' = [w EXCEPT !.toks = InsertAt(t, j, t[j])]
              \/ ~second /\ \E j \in 1..(m + 1) : \E x \in InsertPool : w' = [w EXCEPT !.toks = InsertAt(t, j, x)]
              \/ ~second /\ \E j \in 1..(m - 1) : w' = [w EXCEPT !.toks = [i \in 1..m |-> IF i = j THEN t[j + 1] ELSE IF i = j + 1 THEN t[j] ELSE t[i]]]
              \/ \E c \in 1..(Len(Join(t, IF w.spaced THEN <<" ">> ELSE <<>>)) - 1) : w' = [w EXCEPT !.cut = c]
        /\ edits' = edits + 1 /\ UNCHANGED mode
Next == Grow \/ Edit

TheRun == Run(TextOf, EmptyMid)
WindowsOK == AllSlicesOK(TextOf, TheRun)
StepsAdvance == Progress(TheRun)
AcceptedIsWF == TheRun.res.r = "ok" => WFParsed(TheRun.res.v)
SideDoorsWF == /\ (ParseTruth(TextOf).r = "ok" => \A i \in 1..Len(ParseTruth(TextOf).v) : InUnit(ParseTruth(TextOf).v[i]))
               /\ (ParseBudget(TextOf).r = "ok" => \A i \in 1..Len(ParseBudget(TextOf).v) : InUnit(ParseBudget(TextOf).v[i]))
\* M8 (C05): the window the lexical parser slices is well-formed and a term never reports more than its environment holds
TheLex == LexParse(TextOf)
LexWindowOK == TheLex.r # "panic"
LexLengthOK == TheLex.r = "ok" => TheLex.lenOK
Emit == PrintT(<<"CMD", ToJson([op |-> "parse_any", fmt |-> FmtName, s |-> TextOf])>>)
Spec == Init /\ [][Next]_vars
=============================================================================
