-------------------------------- MODULE J_C17 --------------------------------
(* Trace judge for C17: every recorded behaviour of a real Term under the two mutators is
   replayed through the functions of Mutators.tla; outcome, post-state and the name accessor
   must agree after every step, and a failed step must leave the term unchanged. *)
EXTENDS Mutators, TLCExt

Obs == ndJsonDeserialize(IOEnv.NV_OBS)
VARIABLE l

ArgOf(op) == IF op.op = "set_name" THEN op ELSE [op |-> "push", cs |-> [j \in 1..Len(op.cs) |-> J2V(op.cs[j])]]
NameObs(st) == IF st.name.some THEN [some |-> TRUE, v |-> st.name.v] ELSE [some |-> FALSE]

StepViol(o, i) ==
  LET pre == J2V(o.o.steps[i].t)
      post == o.o.steps[i + 1]
      m == ApplyOp(pre, ArgOf(o.c.ops[i]))
  IN (IF post.res # (IF m.ok THEN "ok" ELSE "err") THEN {"result"} ELSE {})
     \cup (IF J2V(post.t) # m.t THEN {"post-state"} ELSE {})
     \cup (IF ~m.ok /\ J2V(post.t) # pre THEN {"err-changed-term"} ELSE {})
     \cup (IF NameObs(post) # AtomName(J2V(post.t)) THEN {"name-accessor"} ELSE {})

Viol(o) == IF "steps" \notin DOMAIN o.o THEN {"no-steps"}
           ELSE (IF J2V(o.o.steps[1].t) # J2V(o.c.t) THEN {"build"} ELSE {})
                \cup UNION {StepViol(o, i) : i \in 1..Len(o.c.ops)}

Init == l = 1
Next == /\ l <= Len(Obs)
        /\ l' = l + 1
        /\ LET v == Viol(Obs[l]) IN v = {} \/ PrintT(<<"BAD", Obs[l].id, v>>)
Done == /\ TLCGet("stats").diameter - 1 = Len(Obs)
        /\ PrintT(<<"JUDGED", Len(Obs)>>)
=============================================================================
