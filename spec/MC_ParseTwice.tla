---------------------------- MODULE MC_ParseTwice ----------------------------
(* Texts for "two parses of the same string" (C06 / C07): the model formatter's text of values
   with unordered parts, in the format under study. *)
EXTENDS EnumFormat, Universe
CONSTANTS TIER, SEEDS, SEED
VARIABLES mode, n
Vals == {AsTerm(t) : t \in Sample(U1, 3, SEED) \cup {RepOf(kd) : kd \in CompoundKinds \cup StatementKinds}
                         \cup {[k |-> "SetExtension", s |-> {SI1(W("a")), [k |-> "Conjunction", s |-> {W("a"), W("b"), W("c")}], [k |-> "Similarity", p |-> {W("a"), SE1(W("b"))}]}]}}
        \cup Sample(EnvelopeQuickSet(0), 29, SEED)
Init == mode = "seed" /\ n \in 1..SEEDS
Next == mode = "seed" /\ mode' = "case" /\ n' \in Part(Vals, n, SEEDS)
EmitText == mode = "case" => PrintT(<<"CMD", ToJson([op |-> "eq_parse_twice", fmt |-> FmtName, s |-> Format(n)])>>)
Spec == Init /\ [][Next]_<<mode, n>>
=============================================================================
