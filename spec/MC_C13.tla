------------------------------- MODULE MC_C13 -------------------------------
(* All class tuples up to MAXLEN, grown one component at a time (so the tree is shared between
   workers).  The laws are stated on the model; every tuple becomes a command. *)
EXTENDS Numbers, Json

CONSTANT MAXLEN
VARIABLE fs
Init == fs = <<>>
Next == Len(fs) < MAXLEN /\ \E c \in Classes : fs' = Append(fs, c)

Laws == \A kind \in {"truth", "budget"} :
  /\ (New(kind, fs).r = "panic") <=> (TryFromFloats(kind, fs).r = "err")
  /\ TryFromFloats(kind, fs).r = "ok" => Len(TryFromFloats(kind, fs).stored) = Min2(Len(fs), Arity(kind))
  /\ (TryFromFloats(kind, fs).r = "ok") <=> (\A i \in 1..Min2(Len(fs), Arity(kind)) : Valid(fs[i]))
  /\ (Len(fs) > 0 => ((Validate(fs[1]) = "panic") <=> (TryValidate(fs[1]) = "err")) /\ ((TryValidate(fs[1]) = "err") <=> ~IsValid(fs[1])))
Emit == PrintT(<<"CMD", ToJson([op |-> "numbers", cls |-> fs])>>)
Spec == Init /\ [][Next]_fs
=============================================================================
