-------------------------------- MODULE J_C15 --------------------------------
(* Judge for C15: recorded behaviours of real Narsese values (both data models) replayed through
   Lifecycle.tla step by step, and the kind of what the two parsers accept. *)
EXTENDS Lifecycle, LexValues, TLCExt

Obs == ndJsonDeserialize(IOEnv.NV_OBS)
VARIABLE l
V(b, tag) == IF b THEN {} ELSE {tag}

Val(m, j) == IF m = "enum" THEN J2N(j) ELSE J2LN(j)
ResOf(m, r) == CASE r.r = "is" -> [r |-> "is", is |-> SeqOf(r.is)]
                 [] r.r = "term" -> [r |-> "term", term |-> IF m = "enum" THEN J2V(r.term) ELSE J2L(r.term)]
                 [] r.r \in {"reparsed", "reparse-fail"} -> [r |-> r.r]
                 [] OTHER -> [r |-> r.r]
LifeViol(o) ==
  IF "steps" \notin DOMAIN o.o THEN {"build-fail"} ELSE
  LET m == o.c.model  st == o.o.steps IN
  V(Val(m, st[1].v) = Val(m, o.c.v), "harness-built-other-value")
  \cup UNION {LET pre == Val(m, st[i].v)
                  r == Step(m, pre, o.c.ops[i])
              IN V(ResOf(m, st[i + 1].res) = r.res, "result-" \o o.c.ops[i]) \cup V(Val(m, st[i + 1].v) = r.n, "value-after-" \o o.c.ops[i])
              : i \in 1..Len(o.c.ops)}
\* The classification claim is about inputs that carry a term; an input without a term item is outside the
\* statement (in Han a stamp keyword is itself a legal word, so such an input may leniently be read as a term).
ClassViol(o) ==
  LET e == o.o.e  lx == o.o.l  f == o.o.f  k == o.c.classify IN
  V(e.r # "panic" /\ lx.r # "panic" /\ f.r # "panic", "panic")
  \cup (IF o.c.has_term
        THEN V(e.r = "ok" => e.v.kind = k, "enum-kind") \cup V(lx.r = "ok" => lx.v.kind = k, "lexical-kind") \cup V(f.r = "ok" => f.v.kind = k, "fold-kind")
        ELSE {})
Viol(o) == IF o.c.op = "lifecycle" THEN LifeViol(o) ELSE ClassViol(o)
\* the two parsers disagreeing on Ok / Err for a partial input is drift, not a violation (DESIGN 9e)
Drift(o) == IF o.c.op # "pipe" THEN {}
            ELSE IF o.c.has_term /\ (o.o.e.r = "ok") # (o.o.l.r = "ok") THEN {"parsers-disagree-on-acceptance"}
            ELSE IF ~o.c.has_term /\ (o.o.e.r = "ok" \/ o.o.l.r = "ok") THEN {"accepted-without-term-item"} ELSE {}

Init == l = 1
Next == /\ l <= Len(Obs)
        /\ l' = l + 1
        /\ LET v == Viol(Obs[l]) IN v = {} \/ PrintT(<<"BAD", Obs[l].id, v>>)
        /\ LET d == Drift(Obs[l]) IN d = {} \/ PrintT(<<"DRIFT", Obs[l].id, d>>)
Done == /\ TLCGet("stats").diameter - 1 = Len(Obs)
        /\ PrintT(<<"JUDGED", Len(Obs)>>)
=============================================================================
