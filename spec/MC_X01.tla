------------------------------- MODULE MC_X01 -------------------------------
(* Exhaustive exploration of M9 from every one of the 32 slot sets, all operation sequences up to
   DEPTH; invariants: a take never creates a slot, has_* never changes anything, a failed
   take_sentence / take_task takes nothing. *)
EXTENDS Options, TLC, Json
CONSTANT DEPTH
VARIABLES s0, s, hist, last
vars == <<s0, s, hist, last>>
Init == s0 \in SUBSET Slots /\ s = s0 /\ hist = <<>> /\ last = <<>>
Next == Len(hist) < DEPTH /\ \E op \in OpNames : LET r == Step(s, op) IN s' = r.s /\ last' = r.res /\ hist' = Append(hist, op) /\ UNCHANGED s0
NeverCreates == s \subseteq s0
PredicatesPure == [][hist'[Len(hist')] \in {"has_sentence", "has_task", "clone_eq"} => s' = s]_vars
FailedTakeTakesNothing == [][(hist'[Len(hist')] \in {"take_sentence", "take_task"} /\ last' = <<0>>) => s' = s]_vars
Str(S) == LET q == SlotString(S) IN q[1] \o q[2] \o q[3] \o q[4] \o q[5]
Emit == Len(hist) = DEPTH => PrintT(<<"CMD", ToJson([op |-> "options", slots |-> Str(s0), ops |-> hist])>>)
Spec == Init /\ [][Next]_vars
=============================================================================
