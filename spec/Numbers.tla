------------------------------- MODULE Numbers -------------------------------
(* C13 over a partition of f64 into classes (TLC has no floats; DESIGN §2).  A component is a
   class name; the harness substitutes concrete bit patterns of that class. *)
EXTENDS Text

Classes == {"neg_inf", "neg", "neg_zero", "pos_zero", "subnormal", "mid", "one", "one_plus", "big", "pos_inf", "nan"}
Valid(c) == c \in {"neg_zero", "pos_zero", "subnormal", "mid", "one"}       \* 0 <= x <= 1 ; -0.0 counts (DESIGN 9f)

Arity(kind) == IF kind = "truth" THEN 2 ELSE 3
Consumed(kind, fs) == SubSeq(fs, 1, Min2(Len(fs), Arity(kind)))
\* checked constructor: Ok exactly when every CONSUMED component is valid; surplus items are ignored
TryFromFloats(kind, fs) == LET c == Consumed(kind, fs) IN
  IF \A i \in 1..Len(c) : Valid(c[i]) THEN [r |-> "ok", stored |-> c] ELSE [r |-> "err"]
\* panicking constructor of the arity that matches the number of supplied components (at most Arity)
New(kind, fs) == LET c == Consumed(kind, fs) IN
  IF \A i \in 1..Len(c) : Valid(c[i]) THEN [r |-> "ok", stored |-> c] ELSE [r |-> "panic"]
\* accessor number j (1-based) of a value with n stored components
Access(n, j) == IF j <= n THEN "ok" ELSE "panic"
\* evidence-number API on one float
IsValid(c) == Valid(c)
TryValidate(c) == IF Valid(c) THEN "ok" ELSE "err"
Validate(c) == IF Valid(c) THEN "ok" ELSE "panic"
=============================================================================
