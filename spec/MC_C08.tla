------------------------------- MODULE MC_C08 -------------------------------
(* C08: M1 across inputs.  One ParseState is re-targeted at each input of a batch; the state
   that survives from one input to the next are the five optional slots.  The machine below has
   the actions the code has: ResetTo (re-target; on the repaired tree it clears the slots) and
   Consume (one whole parse of the current input from the current slots).  RESET_CLEARS = FALSE
   is the pinned tree's behaviour and is kept as a negative control: TLC must then find the
   history ["budget term", "term ."] whose second result is a task.                              *)
EXTENDS EnumFormat, EnumParser, Universe

CONSTANTS MAXLEN, RESET_CLEARS
VARIABLES hist, slots, outs
vars == <<hist, slots, outs>>

A == W("a")
B == W("b")
J == [k |-> "Judgement"]
Txt(toks) == CanonText(toks)
Sent(t, p, st, tr) == Sentence(t, p, st, tr)
\* the longest proper prefix, made of name characters, of some copula (ASCII "--" of "-->", Han "具" of "具有"); <<>> if none
NameHeads == {h \in UNION {{SubSeq(F.cop[k], 1, i) : i \in 1..(Len(F.cop[k]) - 1)} : k \in CopKinds} : \A j \in 1..Len(h) : h[j] \in NameChars}
CopulaHead == IF NameHeads = {} THEN <<>> ELSE CHOOSE s \in NameHeads : \A u \in NameHeads : Len(u) <= Len(s)
CopulaTail == IF CopulaHead = <<>> THEN <<>> ELSE LET k == CHOOSE k \in CopKinds : SubSeq(F.cop[k], 1, Len(CopulaHead)) = CopulaHead /\ Len(F.cop[k]) > Len(CopulaHead)
                                                  IN SubSeq(F.cop[k], Len(CopulaHead) + 1, Len(F.cop[k]))
\* fragments: complete values, partial inputs that leave slots filled, invalid inputs that fail half-way
Pool == <<
  Format(AsTask(<<"0.5">>, Sent(A, "Judgement", [k |-> "Present"], <<"1", "0.9">>))),           \* 1 complete task
  Format(AsSentence(Sent(B, "Judgement", [k |-> "Eternal"], <<>>))),                             \* 2 bare judgement
  Format(AsTerm(B)),                                                                             \* 3 bare term
  Txt(EndWith(BudgetToks(<<"0.5">>), "i") \o TermToks(A)),                                         \* 4 budget + term (a term result; budget slot stays)
  Txt(EndWith(TermToks(A), "t") \o StampToks([k |-> "Present"])),                                  \* 5 term + stamp
  Txt(EndWith(TermToks(A), "t") \o TruthToks(<<"1">>)),                                            \* 6 term + truth
  Txt(BudgetToks(<<"0.2">>)),                                                                     \* 7 budget only (error: no term)
  Txt(TruthToks(<<"1">>)),                                                                        \* 8 truth only
  Txt(EndWith(TermToks(A) \o T(F.punct["Judgement"], "t"), "t") \o NumToks(<<"2">>, F.truthL, F.truthSep, F.truthR)),   \* 9 out-of-range truth after a valid sentence
  Txt(T(F.compL, "n") \o T(F.conn["Conjunction"], "n") \o T(F.sep, "t") \o TermToks(A)),           \* 10 unterminated compound
  <<>>,                                                                                          \* 11 empty input
  Txt(StampToks([k |-> "Fixed", n |-> "7"])),                                                      \* 12 stamp only
  Txt(T(F.punct["Goal"], "n")),                                                                    \* 13 punctuation only
  Format(AsTerm(IV("x"))),                                                                       \* 14 a term that starts like a budget
  Format(AsSentence(Sent(QV("z"), "Question", [k |-> "Eternal"], <<>>))),                        \* 15 ?z?
  Txt(EndWith(BudgetToks(<<>>), "i") \o TermToks(B) \o T(F.punct["Goal"], "n")),                    \* 16 task with empty budget
  <<"x">> \o CopulaHead,                                                                         \* 17 a name that ends with the first character(s) of a copula
  Txt(TermToks([k |-> "SetIntension", s |-> {W("ab")}])),                                         \* 18 a longer text whose tail can complete a copula after input 17
  <<"x", "y">> \o CopulaHead \o CopulaTail,                                                      \* 19 ... and one that ends with a whole copula
  Format(AsSentence(Sent(B, "Judgement", [k |-> "Eternal"], <<>>))) \o <<"\r">>,                  \* 20 a sentence followed by a carriage return
  <<"\t">> \o Format(AsTerm(A)) \o <<"\n">>,                                                     \* 21 a term wrapped in tab / newline
  Txt(EndWith(TermToks(A) \o T(F.punct["Judgement"], "t"), "t") \o T(F.stampL, "n") \o T(F.stamp["Fixed"], "n") \o T(<<"5", "-", "3">>, "n") \o T(F.stampR, "n")),   \* 22 a malformed fixed-stamp number
  Format(AsSentence(Sent(B, "Goal", [k |-> "Fixed", n |-> "-7"], <<"1">>))),                      \* 23 a well-formed fixed stamp (after 22 / 24)
  Txt(EndWith(TermToks(A) \o T(F.punct["Judgement"], "t"), "t") \o StampToks([k |-> "Fixed", n |-> "99999999999999999999"])),  \* 24 a fixed stamp that overflows
  Format(AsTerm([k |-> "ImageExtension", c |-> <<B, [k |-> "PlaceholderRaw", raw |-> "who"]>>])),  \* 25 ends with a placeholder glued to name characters
  Format(AsTerm([k |-> "Inheritance", a |-> W("c"), b |-> OP("d")])),                             \* 26 a statement whose first atom is a plain word (after 25)
  Txt(EndWith(TermToks(A) \o T(F.punct["Question"], "t"), "t") \o TruthToks(<<"0.3", "0.4">>)),      \* 27 a question written with a truth (accepted; the truth is dropped)
  Format(AsSentence(Sent(B, "Goal", [k |-> "Eternal"], <<>>)))                                   \* 28 a goal without a truth (after 27)
>>

Init == hist = <<>> /\ slots = EmptyMid /\ outs = <<>>
Next == /\ Len(hist) < MAXLEN
        /\ \E i \in 1..Len(Pool) :
             LET start == IF RESET_CLEARS THEN EmptyMid ELSE slots            \* ResetTo
                 r == Run(Pool[i], start)                                    \* Consume
             IN hist' = Append(hist, i) /\ slots' = r.mid /\ outs' = Append(outs, r.res)

Alone(i) == Run(Pool[i], EmptyMid).res
HistoryIndependent == \A j \in 1..Len(hist) : outs[j] = Alone(hist[j])
\* coverage: which slots were ever left filled at a ResetTo (read from TLC's -coverage / printed once per new subset)
Emit == Len(hist) = MAXLEN =>
          PrintT(<<"CMD", ToJson([op |-> "multi", fmt |-> FmtName, inputs |-> [j \in 1..Len(hist) |-> Pool[hist[j]]]])>>)
Spec == Init /\ [][Next]_vars
=============================================================================
