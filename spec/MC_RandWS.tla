------------------------------ MODULE MC_RandWS ------------------------------
(* C09 on seeded random values (nv drive values): the values come from a file, the TOKEN
   SEQUENCE and the spacings come from the model (EnumFormat.tla).  A state is (index of the
   value, spacing); TLC checks on the model that every explored spacing parses to the value and
   emits the spaced text for both real pipelines. *)
EXTENDS Sugar, EnumFormat, EnumParser, Json, IOUtils

CONSTANTS SEED, WHAT            \* WHAT = "ws": spacings of the value as formatted (C09);  "sugar": surface sugar over the value's parts (C10)
VARIABLES mode, ix, sp, sv
vars == <<mode, ix, sp, sv>>

Recs == ndJsonDeserialize(IOEnv.NV_VALUES)
Val(i) == J2N(Recs[i].v)

Variants(i) ==
  LET toks == NarseseToks(Val(i))
      m == Len(toks)
  IN {AllSp(toks, k) : k \in 0..2}
     \cup {OnlyAt(toks, ((i * 31 + SEED) % Max2(1, m - 1)) + 1, 1, 0), OnlyAt(toks, ((i * 17 + SEED) % Max2(1, m - 1)) + 1, 0, 1),
           OnlyAt(toks, ((i * 13 + SEED) % Max2(1, m - 1)) + 1, 4, 0)}
     \cup {[j \in 1..m |-> ((j * 7 + r * 13 + i + SEED) % 5) % 3] : r \in 1..3}

\* ---- C10: surface trees whose meaning is (or contains) the random value
WithTerm(n, t) == CASE n.kind = "term" -> [n EXCEPT !.v = t] [] n.kind = "sentence" -> [n EXCEPT !.v.t = t] [] n.kind = "task" -> [n EXCEPT !.v.s.t = t]
One(S) == CHOOSE e \in S : TRUE
\* write a canonical term back with sugar wherever the documented sugar applies
RECURSIVE Resugar(_)
Resugar(x) ==
  CASE x.k = "Interval" -> [k |-> "IntervalRaw", raw |-> "00" \o x.n]
    [] x.k \in NamedAtomKinds \cup {"Placeholder"} -> x
    [] x.k \in SetKinds -> [k |-> x.k, s |-> {Resugar(e) : e \in x.s}]
    [] x.k \in SeqKinds -> [k |-> x.k, q |-> [i \in 1..Len(x.q) |-> Resugar(x.q[i])]]
    [] x.k \in ImgKinds -> [k |-> x.k, i |-> x.i, q |-> [i \in 1..Len(x.q) |-> Resugar(x.q[i])]]
    [] x.k = "Negation" -> [k |-> x.k, a |-> Resugar(x.a)]
    [] x.k \in {"DifferenceExtension", "DifferenceIntension"} -> [k |-> x.k, a |-> Resugar(x.a), b |-> Resugar(x.b)]
    [] x.k \in CopKinds /\ "p" \in DOMAIN x -> [k |-> x.k, p |-> {Resugar(e) : e \in x.p}]
    [] x.k = "Inheritance" ->
         LET se == x.a.k = "SetExtension" /\ Cardinality(x.a.s) = 1
             si == x.b.k = "SetIntension" /\ Cardinality(x.b.s) = 1
         IN IF se /\ si THEN Stmt("InstanceProperty", Resugar(One(x.a.s)), Resugar(One(x.b.s)))
            ELSE IF se THEN Stmt("Instance", Resugar(One(x.a.s)), Resugar(x.b))
            ELSE IF si THEN Stmt("Property", Resugar(x.a), Resugar(One(x.b.s)))
            ELSE Stmt(x.k, Resugar(x.a), Resugar(x.b))
    [] x.k = "EquivalencePredictive" -> Stmt("EquivalenceRetrospective", Resugar(x.b), Resugar(x.a))
    [] OTHER -> Stmt(x.k, Resugar(x.a), Resugar(x.b))
\* every derived copula over the operands of a random statement (or over the term and a word)
Operands(t) == IF t.k \in CopKinds /\ "a" \in DOMAIN t THEN <<t.a, t.b>> ELSE IF t.k \in CopKinds THEN <<t, W("b")>> ELSE <<t, W("b")>>
SugarTrees(i) ==
  LET n == Val(i)  t == TermOfN(n)  ab == Operands(t) IN
  {WithTerm(n, Resugar(t))} \cup {WithTerm(n, Stmt(kd, ab[1], ab[2])) : kd \in Derived} \cup {WithTerm(n, Stmt(kd, Resugar(ab[2]), ab[1])) : kd \in Derived}

Init == /\ mode = "value" /\ ix \in 1..Len(Recs) /\ sp = <<>> /\ sv = Val(ix)
Next == \/ /\ WHAT = "ws" /\ mode = "value" /\ mode' = "case" /\ sp' \in Variants(ix) /\ UNCHANGED <<ix, sv>>
        \/ /\ WHAT = "sugar" /\ mode = "value" /\ mode' = "case" /\ sv' \in SugarTrees(ix)
           /\ \E k \in {0, 1, 2} : sp' = AllSp(NarseseToks(sv'), k)
           /\ UNCHANGED ix

Text == Render(NarseseToks(sv), sp)
SpacingIrrelevant == mode = "case" => Parse(Text) = OkRes(DesugarN(sv))
Emit == mode = "case" =>
          PrintT(<<"CMD", ToJson([op |-> "pipe", fmt |-> FmtName, s |-> Text, expect |-> N2J(DesugarN(sv)), rand |-> TRUE,
                                  macros |-> (FmtName = "ascii" /\ \A i \in 1..Len(sp) : sp[i] = 1)])>>)
Spec == Init /\ [][Next]_vars
=============================================================================
