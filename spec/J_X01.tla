-------------------------------- MODULE J_X01 --------------------------------
(* Judge for M9 (NarseseOptions): replay of recorded behaviours through Options.tla, and for the
   stand-alone parts (truth / budget / stamp / punctuation formatted and parsed on their own, lists
   folded, Truth setters) against the enum parser model and Fold. *)
EXTENDS Options, Fold, TLCExt

Obs == ndJsonDeserialize(IOEnv.NV_OBS)
VARIABLE l
V(b, tag) == IF b THEN {} ELSE {tag}
SlotSetOf(str) == {i \in 1..5 : SubSeq(str, i, i) = "1"}

OptViol(o) ==
  LET RECURSIVE Walk(_, _)
      Walk(S, i) == IF i > Len(o.c.ops) THEN {}
                    ELSE LET r == Step(S, o.c.ops[i])  got == o.o.steps[i] IN
                         V(SeqOf(got.res) = r.res, "result-" \o o.c.ops[i]) \cup V(SlotSetOf(got.slots) = r.s, "slots-after-" \o o.c.ops[i])
                         \cup Walk(SlotSetOf(got.slots), i + 1)
  IN Walk(SlotSetOf(o.c.slots), 1)

NumsOK(q) == \A i \in 1..Len(q) : InUnit(q[i])
PartsViol(o) ==
  LET ob == o.o  tr == SeqOf(o.c.truth)  bu == SeqOf(o.c.budget) IN
  V(IF tr = <<>> THEN ob.truth.r = "empty" ELSE (ob.truth.r = "ok" /\ SeqOf(ob.truth.v) = tr), "truth-alone")
  \cup V(ob.budget.r = "ok" /\ SeqOf(ob.budget.v) = bu, "budget-alone")
  \cup V(ob.stamp.r = "ok" /\ ob.stamp.v = o.c.stamp, "stamp-alone")
  \cup V(ob.punct.r = "ok" /\ ob.punct.v = o.c.punct, "punctuation-alone")
  \cup V(ob.fold_truth.r = "ok" /\ SeqOf(ob.fold_truth.v) = tr, "fold-truth")
  \cup V(ob.fold_budget.r = "ok" /\ SeqOf(ob.fold_budget.v) = bu, "fold-budget")
  \cup V(IF Len(tr) >= 1 THEN ob.set_f.r = "ok" /\ SeqOf(ob.set_f.v) = <<"0.25">> \o Tail(tr) ELSE ob.set_f.r = "panic", "set-frequency")
  \cup V(IF Len(tr) = 2 THEN ob.set_c.r = "ok" /\ SeqOf(ob.set_c.v) = <<tr[1], "0.125">> ELSE ob.set_c.r = "panic", "set-confidence")
PartsDrift(o) ==
  LET ob == o.o IN
  (IF ob.ts # "" /\ ParseTruth(Chars(ob.ts)) # [r |-> "ok", v |-> SeqOf(o.c.truth)] THEN {"model-truth"} ELSE {})
  \cup (IF ParseBudget(Chars(ob.bs)) # [r |-> "ok", v |-> SeqOf(o.c.budget)] THEN {"model-budget"} ELSE {})
  \cup (IF ParseStamp(Chars(ob.ss)) # [r |-> "ok", v |-> o.c.stamp] THEN {"model-stamp"} ELSE {})
  \cup (IF FoldFloats(SeqOf(o.c.truth), 2) # FOk(SeqOf(o.c.truth)) THEN {"model-fold"} ELSE {})

Viol(o) == IF o.c.op = "options" THEN OptViol(o) ELSE PartsViol(o)
Drift(o) == IF o.c.op = "parts" THEN PartsDrift(o) ELSE {}
Init == l = 1
Next == /\ l <= Len(Obs)
        /\ l' = l + 1
        /\ LET v == Viol(Obs[l]) IN v = {} \/ PrintT(<<"BAD", Obs[l].id, v>>)
        /\ LET d == Drift(Obs[l]) IN d = {} \/ PrintT(<<"DRIFT", Obs[l].id, d>>)
Done == /\ TLCGet("stats").diameter - 1 = Len(Obs)
        /\ PrintT(<<"JUDGED", Len(Obs)>>)
=============================================================================
