-------------------------------- MODULE J_C11 --------------------------------
(* Judge for C11: the published grammar is run on the REAL ASCII string; it must accept, classify
   the text as the kind of the value, and derive the tree the library's own ASCII lexical parser
   returns.  The lexicon clause is checked on the dumped tables (first observation only). *)
EXTENDS Peg, LexValues, TLCExt

Obs == ndJsonDeserialize(IOEnv.NV_OBS)
VARIABLE l
V(b, tag) == IF b THEN {} ELSE {tag}

Viol(o) ==
  IF "s" \notin DOMAIN o.o THEN {"build-fail"} ELSE
  LET e == [i \in 1..Len(o.o.chars) |-> o.o.chars[i]]
      g == Narsese(e)
  IN V(o.o.entries_agree, "formatter-entry-points-write-different-texts")     \* format_narsese vs format_term / _sentence / _task (and FormatTo)
     \cup V(g.kind # "reject", "grammar-rejects")
     \cup V(g.kind = "reject" \/ g.kind = o.o.kind, "grammar-classifies-differently")
     \cup V(o.o.lex.r = "ok", "library-lexical-parser-rejects")
     \cup V((g.kind # "reject" /\ o.o.lex.r = "ok") => (o.o.lex.v.kind = g.kind /\ J2LN(o.o.lex.v).v = g.v), "tree-differs")

Init == l = 1
Next == /\ l <= Len(Obs)
        /\ l' = l + 1
        /\ LET v == Viol(Obs[l]) IN v = {} \/ PrintT(<<"BAD", Obs[l].id, v>>)
Done == /\ TLCGet("stats").diameter - 1 = Len(Obs)
        /\ PrintT(<<"JUDGED", Len(Obs)>>)
=============================================================================
