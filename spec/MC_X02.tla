------------------------------- MODULE MC_X02 -------------------------------
(* Stand-alone parts: every truth / budget / stamp / punctuation of the envelopes, formatted and
   parsed on its own (FormatTo for the parts, the FromParse side doors), folded from its lexical
   list, and the Truth setters. *)
EXTENDS Universe, TLC, Json
VARIABLES mode, n
Nums == {"0", "0.5", "1", "0.0000001", "0.123456789"}
Truths == {<<>>} \cup {<<a>> : a \in Nums} \cup {<<a, b>> : a \in Nums, b \in {"0.9", "1", "0.30000000000000004"}}
Budgets == {<<>>} \cup {<<a>> : a \in Nums} \cup {<<a, "0.75">> : a \in Nums} \cup {<<"0.5", a, "0.4">> : a \in Nums}
Init == mode = "seed" /\ n \in 1..8
Next == mode = "seed" /\ mode' = "case" /\ \E tr \in Part(Truths, n, 8) : \E b \in Budgets : \E st \in StampsFull : \E p \in Puncts :
          n' = [truth |-> tr, budget |-> b, stamp |-> st, punct |-> p]
Emit == mode = "case" => PrintT(<<"CMD", ToJson([op |-> "parts", fmt |-> FmtName, truth |-> n.truth, budget |-> n.budget, stamp |-> n.stamp, punct |-> n.punct])>>)
Spec == Init /\ [][Next]_<<mode, n>>
=============================================================================
