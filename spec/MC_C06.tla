------------------------------- MODULE MC_C06 -------------------------------
(* C06 / C07.  (1) Design level on M4: for ALL pairs of built terms up to DEPTH -- i.e. for all
   hidden iteration orders -- equality is canonical equality and equal terms feed equal hash
   input.  (2) Emission of recipe pairs (construction histories) for the real code: every
   permutation / duplication variant of a value against every other variant of the same value,
   and against its near misses. *)
EXTENDS EqHash, Universe

CONSTANTS DEPTH, TIER, SEEDS, SEED
VARIABLES mode, x, y
vars == <<mode, x, y>>

\* ---- recipes: a canonical value written as a construction history, in one of several orders
RECURSIVE Recipe(_, _)
Rev(q) == [i \in 1..Len(q) |-> q[Len(q) + 1 - i]]
Rot(q) == IF Len(q) <= 1 THEN q ELSE Tail(q) \o <<Head(q)>>
Order(q, var) == CASE var = 1 -> q [] var = 2 -> Rev(q) [] var = 3 -> Rot(q) \o <<q[1]>> [] var = 4 -> <<q[Len(q)]>> \o Rev(Rot(q))
Recipe(v, var) ==
  CASE IsAtom(v) -> v
    [] v.k \in SetKinds -> [k |-> v.k, s |-> LET q == Order(SetToSeq(v.s), var) IN [i \in 1..Len(q) |-> Recipe(q[i], var)]]
    [] v.k \in SeqKinds -> [k |-> v.k, q |-> [i \in 1..Len(v.q) |-> Recipe(v.q[i], var)]]
    [] v.k \in ImgKinds -> [k |-> v.k, i |-> v.i, q |-> [i \in 1..Len(v.q) |-> Recipe(v.q[i], var)]]
    [] v.k = "Negation" -> [k |-> v.k, a |-> Recipe(v.a, var)]
    [] v.k \in SymStmtKinds -> LET q == Order(SetToSeq(v.p), IF var \in {2, 4} THEN 2 ELSE 1)
                               IN [k |-> v.k, a |-> Recipe(q[1], var), b |-> Recipe(q[Len(q)], var)]
    [] OTHER -> [k |-> v.k, a |-> Recipe(v.a, var), b |-> Recipe(v.b, var)]

\* ---- a universe rich in nested unordered compounds and symmetric statements
L0 == {W("a"), W("b"), W("c"), IV("a"), PH}
K3 == {"SetExtension", "SetIntension", "Conjunction"}
L1 == {[k |-> kd, s |-> S] : kd \in SetKinds, S \in SubsetsUpTo(L0, 3)}       \* every one of the seven unordered constructors
      \cup {[k |-> kd, p |-> pr] : kd \in SymStmtKinds, pr \in PairsUnordered({W("a"), W("b"), IV("a")})}
      \cup {[k |-> "Product", q |-> q] : q \in SeqsUpTo({W("a"), W("b")}, 2)}
      \cup {[k |-> "ImageExtension", i |-> i, q |-> <<W("a"), W("b")>>] : i \in 0..2}
      \cup {[k |-> kd, a |-> a, b |-> b] : kd \in {"Inheritance", "DifferenceExtension"}, a \in {W("a"), W("b")}, b \in {W("a"), W("b")}}
M1s == Sample(L1, IF TIER = "thorough" THEN 3 ELSE 5, SEED) \cup {W("a")}
L2 == {[k |-> kd, s |-> S] : kd \in {"SetExtension", "Disjunction", "ConjunctionParallel"}, S \in SubsetsUpTo(M1s, 2)}
      \cup {[k |-> kd, p |-> pr] : kd \in {"Similarity", "EquivalenceConcurrent"}, pr \in PairsUnordered(M1s)}
      \cup {[k |-> "Implication", a |-> a, b |-> W("c")] : a \in M1s} \cup {[k |-> "ConjunctionSequential", q |-> <<a, W("c")>>] : a \in M1s}
L3 == {[k |-> "IntersectionExtension", s |-> {v, W("z")}] : v \in Sample(L2, 11, SEED)}
      \cup {[k |-> "Equivalence", p |-> {v, SE1(v)}] : v \in Sample(L2, 13, SEED)}
\* sets with many elements (a hash that only looks at part of a set is fine below that size), intervals that differ by 2^32 / 2^63
Ws(m) == {W("w" \o ToString(i)) : i \in 1..m}
Big == {[k |-> kd, s |-> Ws(m)] : kd \in SetKinds, m \in {9, 17, 33}} \cup {[k |-> kd, s |-> Ws(m)] : kd \in {"SetIntension", "Disjunction"}, m \in {20, 65}}
       \cup {[k |-> "SetExtension", s |-> Ws(129)], [k |-> "Conjunction", s |-> Ws(48)]}
       \cup (IF TIER = "thorough" THEN {[k |-> "SetExtension", s |-> Ws(257)], [k |-> "Conjunction", s |-> Ws(129)]} ELSE {})
       \cup {[k |-> "SetIntension", s |-> {[k |-> "SetExtension", s |-> Ws(34)], W("a")}],
             [k |-> "Similarity", p |-> {[k |-> "IntersectionIntension", s |-> Ws(40)], [k |-> "Disjunction", s |-> Ws(33)]}]}
       \cup {[k |-> "Similarity", p |-> {[k |-> "SetExtension", s |-> Ws(9)], [k |-> "Conjunction", s |-> Ws(10)]}],
             [k |-> "SetIntension", s |-> {[k |-> "Disjunction", s |-> Ws(11)], W("a")}]}
Ints == {INT("1"), INT("4294967297"), INT("9223372036854775809"), INT("0"), INT("4294967296")}
IntU == Ints \cup {[k |-> "SetExtension", s |-> {iv, W("a")}] : iv \in Ints} \cup {[k |-> "Product", q |-> <<iv>>] : iv \in Ints}
\* every constructor directly inside every constructor (a third of the pairwise cover in the quick tier), and terms whose two
\* components are the same term
SameKids == UNION {{[k |-> "Product", q |-> <<c, c>>], [k |-> "Inheritance", a |-> c, b |-> c], [k |-> "Similarity", p |-> {c}],
                    [k |-> "ImplicationPredictive", a |-> c, b |-> c], [k |-> "DifferenceExtension", a |-> c, b |-> c]} : c \in Reps}
\* siblings that feed the same hash input but are different terms (Hash writes no constructor tag): the same pair under two
\* different unordered / symmetric constructors, as the two operands of a symmetric statement and as two elements of a set
TwinKinds == {"SetExtension", "SetIntension", "Conjunction", "Similarity", "Equivalence", "EquivalenceConcurrent"}
Twin(kd) == IF kd \in SymStmtKinds THEN [k |-> kd, p |-> {W("a"), W("b")}] ELSE [k |-> kd, s |-> {W("a"), W("b")}]
HashTwins == UNION {{[k |-> o, p |-> {Twin(t1), Twin(t2)}] : o \in SymStmtKinds} \cup {[k |-> "SetExtension", s |-> {Twin(t1), Twin(t2)}],
                                                                               [k |-> "Product", q |-> <<Twin(t1), Twin(t2)>>]}
                    : t1 \in TwinKinds, t2 \in TwinKinds}
\* the same text under different atom kinds (a word, a variable, an operator, an interval spelt alike) side by side
SameText == LET A1 == {W("1"), INT("1"), IV("1"), OP("1"), QV("1")} IN
            {[k |-> kd, p |-> pr] : kd \in SymStmtKinds, pr \in PairsUnordered(A1)} \cup {[k |-> kd, s |-> S] : kd \in {"SetExtension", "Conjunction"}, S \in SubsetsUpTo(A1, 2)}
            \cup {[k |-> "Inheritance", a |-> u1, b |-> u2] : u1 \in A1, u2 \in A1}
EqU == HashTwins \cup SameText \cup L1 \cup L2 \cup L3 \cup Big \cup IntU \cup SameKids \cup Sample(PairCoverSet(0), IF TIER = "thorough" THEN 2 ELSE 3, SEED)

\* near misses: different canonical form, as close as possible
SetSwap(kd) == CASE kd = "SetExtension" -> "SetIntension" [] kd = "SetIntension" -> "SetExtension" [] kd = "Conjunction" -> "Disjunction"
                 [] kd = "Disjunction" -> "ConjunctionParallel" [] kd = "IntersectionExtension" -> "IntersectionIntension" [] OTHER -> "Conjunction"
\* structural near misses of ANY term: inside a double negation, as the only component of a compound
Wraps(v) == {[k |-> "Negation", a |-> [k |-> "Negation", a |-> v]], [k |-> "Conjunction", s |-> {v}], [k |-> "Product", q |-> <<v>>]}
Near0(v) ==
  CASE v.k \in SetKinds -> {[v EXCEPT !.s = @ \cup {W("q")}], [v EXCEPT !.k = SetSwap(@)]}
                            \* one element replaced by a term that FEEDS THE SAME HASH INPUT (Hash writes no constructor tag):
                            \* the same name under another atom kind, and the element wrapped in a negation
                            \cup (LET e == CHOOSE e \in v.s : TRUE IN
                                  {[v EXCEPT !.s = (@ \ {e}) \cup {[k |-> "Negation", a |-> e]}]}
                                  \cup (IF e.k = "Word" THEN {[v EXCEPT !.s = (@ \ {e}) \cup {OP(e.n)}]} ELSE {}))
                            \cup (IF Cardinality(v.s) > 1 THEN {[v EXCEPT !.s = @ \ {CHOOSE e \in v.s : TRUE}]} ELSE {})
    [] v.k \in SymStmtKinds -> (IF Cardinality(v.p) = 1 THEN {[k |-> v.k, p |-> v.p \cup {W("q")}]} ELSE {[k |-> v.k, p |-> {CHOOSE e \in v.p : TRUE, W("q")}]})
                               \cup {[k |-> IF v.k = "Similarity" THEN "Equivalence" ELSE "Similarity", p |-> v.p]}
    [] v.k \in SeqKinds -> {[v EXCEPT !.q = Rev(@)], [v EXCEPT !.q = @ \o <<W("q")>>]}
    [] v.k \in ImgKinds -> {[v EXCEPT !.i = (@ + 1) % (Len(v.q) + 1)], [v EXCEPT !.k = IF @ = "ImageExtension" THEN "ImageIntension" ELSE "ImageExtension"]}
    [] v.k \in AsymBinKinds -> {[v EXCEPT !.a = v.b, !.b = v.a], [v EXCEPT !.k = IF @ = "Inheritance" THEN "Implication" ELSE "Inheritance"]}
    [] v.k = "Interval" -> {iv \in Ints : iv # v}                                \* same low 32 bits, different value
    [] OTHER -> {}
Near(v) == Wraps(v) \cup Near0(v)

Init == \/ mode = "design" /\ x \in BTerms(DEPTH - 1) /\ y = 0
        \/ mode = "seed" /\ x \in 1..SEEDS /\ y = 0
Next == \/ /\ mode = "design" /\ mode' = "pair" /\ y' \in BTerms(DEPTH) /\ UNCHANGED x
        \/ /\ mode = "design" /\ mode' = "pair2" /\ x' \in {b \in BTerms(DEPTH) : Canon(b) = Canon(x) \/ b.k = x.k} /\ y' = x
        \/ /\ mode = "seed" /\ mode' = "value" /\ x' \in Part(EqU, x, SEEDS) /\ UNCHANGED y
        \/ /\ mode = "value" /\ mode' = "recipes"
           /\ \E vv \in (IF TIER = "thorough" THEN {<<1, 2>>, <<2, 3>>, <<3, 4>>, <<4, 1>>, <<3, 3>>, <<1, 3>>, <<2, 4>>}
                         ELSE {<<1, 2>>, <<2, 3>>, <<3, 4>>, <<4, 1>>, <<3, 3>>}) :
              \E w \in {x} \cup Near(x) : x' = Recipe(x, vv[1]) /\ y' = Recipe(w, vv[2])

\* ---- (1) for all hidden orders
EqIsSemantic == mode \in {"pair", "pair2"} => (EqI(x, y) <=> (Canon(x) = Canon(y)))
EqSymmetric == mode \in {"pair", "pair2"} => (EqI(x, y) <=> EqI(y, x))
EqReflexive == mode \in {"pair", "pair2"} => EqI(x, x)
EqualHashEqual == mode \in {"pair", "pair2"} => ((Canon(x) = Canon(y)) => HS(x) = HS(y))
\* ---- (2)
Emit == mode = "recipes" => PrintT(<<"CMD", ToJson([op |-> "eqhash", a |-> x, b |-> y])>>)
Spec == Init /\ [][Next]_vars
=============================================================================
