------------------------------- MODULE J_Garbage -------------------------------
(* Judge for the garbage universes.  NV_PROP selects the property whose statement is applied:
     C04  every enum entry point returned Ok or a displayable Err (no panic, no timeout)
     C05  lexical parse, parse_term and fold returned Ok or Err (no panic, no timeout)
     C12  every Ok value is well-formed and could be formatted in all formats and Typst
   The model parser's verdict is compared as DRIFT only (C04 allows lenient acceptance). *)
EXTENDS Fold, LexParser, TLCExt

Obs == ndJsonDeserialize(IOEnv.NV_OBS)
Prop == IOEnv.NV_PROP
VARIABLE l
V(b, tag) == IF b THEN {} ELSE {tag}
HasF(r, f) == f \in DOMAIN r
NoPanic(r) == r.r \in {"ok", "err", "skip"}

EnumEntries == <<"narsese", "chars", "multi1", "truth", "budget", "stamp", "punct">>
ViolC04(ob) == UNION {V(NoPanic(ob[EnumEntries[i]]), "panic-" \o EnumEntries[i]) : i \in 1..Len(EnumEntries)}
               \cup V(ob.narsese.r = ob.chars.r /\ ob.narsese.r = ob.multi1.r, "entry-points-disagree")
ViolC05(ob) == V(NoPanic(ob.lex), "panic-lexical-parse") \cup V(NoPanic(ob.lex_term), "panic-lexical-parse-term") \cup V(NoPanic(ob.fold), "panic-fold")
NumsOK(q) == \A i \in 1..Len(q) : InUnit(q[i])
ViolC12(ob) ==
  (IF ob.narsese.r = "ok" THEN V(WFParsed(J2N(ob.narsese.v)), "parsed-value-ill-formed") \cup V(ob.fmtable.ok, "parsed-value-unformattable") ELSE {})
  \cup (IF ob.fold.r = "ok" THEN V(WFFolded(J2N(ob.fold.v)), "folded-value-ill-formed") \cup V(ob.fold_fmtable.ok, "folded-value-unformattable") ELSE {})
  \cup (IF ob.truth.r = "ok" THEN V(NumsOK(ob.truth.v), "truth-out-of-range") ELSE {})
  \cup (IF ob.budget.r = "ok" THEN V(NumsOK(ob.budget.v), "budget-out-of-range") ELSE {})

FoldAnyViol(ob) ==
  IF Prop = "C05" THEN V(NoPanic(ob.fold), "panic-fold") \cup V(ob.lex_format_ok, "panic-lexical-format")
  ELSE IF ob.fold.r = "ok" THEN V(WFFolded(J2N(ob.fold.v)), "folded-value-ill-formed") \cup V(ob.fmtable.ok, "folded-value-unformattable") ELSE {}

Viol(o) == IF HasF(o.o, "timeout") THEN {"timeout"}
           ELSE IF HasF(o.o, "harness_panic") THEN {"harness-panic"}
           ELSE IF o.c.op = "fold_any" THEN FoldAnyViol(o.o)
           ELSE CASE Prop = "C04" -> ViolC04(o.o) [] Prop = "C05" -> ViolC05(o.o) [] Prop = "C12" -> ViolC12(o.o)
\* the model classifies only the characters of the working alphabet; texts with other characters are not compared
Known(s) == \A i \in 1..Len(s) : s[i] \in Alphabet
FoldDrift(o) == LET m == FoldN(J2LN(o.c.v)) r == o.o.fold IN
                IF m.r # r.r /\ r.r # "panic" THEN {"fold-model-verdict"}
                ELSE IF m.r = "ok" /\ r.r = "ok" /\ MaskN(m.v, m.v) # MaskN(J2N(r.v), m.v) THEN {"fold-model-value"} ELSE {}
Drift(o) == IF o.c.op = "fold_any" THEN (IF HasF(o.o, "timeout") \/ HasF(o.o, "build") THEN {} ELSE FoldDrift(o))
            ELSE IF o.c.op # "parse_any" \/ HasF(o.o, "timeout") \/ Prop = "C12" \/ ~Known(Chars(o.o.s)) THEN {}
            ELSE IF Prop = "C05" THEN
                 (LET m == LexParse(Chars(o.o.s)) r == o.o.lex IN
                  IF m.r # r.r /\ r.r # "panic" THEN {"lexical-model-verdict"}
                  ELSE IF m.r = "ok" /\ r.r = "ok" /\ m.v # J2LN(r.v) THEN {"lexical-model-value"} ELSE {})
                 \cup (LET m == LexParseTerm(Chars(o.o.s)) r == o.o.lex_term IN
                       IF m.r # r.r /\ r.r # "panic" THEN {"lexical-term-model-verdict"}
                       ELSE IF m.r = "ok" /\ r.r = "ok" /\ m.v # J2L(r.v) THEN {"lexical-term-model-value"} ELSE {})
            ELSE LET m == Parse(Chars(o.o.s)) r == o.o.narsese IN
                 IF m.r # r.r /\ r.r # "panic" THEN {"model-verdict"}
                 ELSE IF m.r = "ok" /\ r.r = "ok" /\ MaskN(m.v, m.v) # MaskN(J2N(r.v), m.v) THEN {"model-value"} ELSE {}

Init == l = 1
Next == /\ l <= Len(Obs)
        /\ l' = l + 1
        /\ LET v == Viol(Obs[l]) IN v = {} \/ PrintT(<<"BAD", Obs[l].id, v>>)
        /\ LET d == Drift(Obs[l]) IN d = {} \/ PrintT(<<"DRIFT", Obs[l].id, d>>)
Done == /\ TLCGet("stats").diameter - 1 = Len(Obs)
        /\ PrintT(<<"JUDGED", Len(Obs)>>)
=============================================================================
