-------------------------------- MODULE J_C16 --------------------------------
(* Judge for C16.  Per observation: no panic; every text is trimmed and has no doubled
   whitespace (checked character-wise on the real text); renderings of freshly built copies of
   the same value agree up to the order of unordered components.  Over the whole history (M6):
   one text never stands for two different values -- decided with the set of (text, value)
   pairs: each text must occur with exactly one value. *)
EXTENDS Typst, TLCExt

Obs == ndJsonDeserialize(IOEnv.NV_OBS)
VARIABLE l
V(b, tag) == IF b THEN {} ELSE {tag}

OkTexts(o) == {i \in 1..Len(o.o.texts) : o.o.texts[i].r = "ok"}
\* ---- M6: the history of renderings
Pairs == UNION {{<<o.o.texts[i].s, J2N(o.c.v)>> : i \in OkTexts(o)} : o \in {Obs[j] : j \in 1..Len(Obs)}}
Texts == {p[1] : p \in Pairs}
Ambiguous == IF Cardinality(Pairs) = Cardinality(Texts) THEN {}
             ELSE LET q == SetToSeq(Pairs)
                      adj == {q[i][1] : i \in {j \in 1..(Len(q) - 1) : q[j][1] = q[j + 1][1]}}
                  IN IF adj # {} THEN adj ELSE {t \in Texts : Cardinality({p \in Pairs : p[1] = t}) > 1}

\* space-separated tokens of a text, as a bag
RECURSIVE SplitSp(_, _, _)
SplitSp(s, i, cur) == IF i > Len(s) THEN (IF cur = <<>> THEN <<>> ELSE <<cur>>)
                      ELSE IF s[i] = " " THEN (IF cur = <<>> THEN <<>> ELSE <<cur>>) \o SplitSp(s, i + 1, <<>>)
                      ELSE SplitSp(s, i + 1, Append(cur, s[i]))
BagOfSeq(q) == [x \in Rng(q) |-> Cardinality({i \in 1..Len(q) : q[i] = x})]
Tokens(str) == BagOfSeq(SplitSp(Chars(str), 1, <<>>))

PartViol(p, name) == V(p.r = "ok", "panic-" \o name) \cup (IF p.r = "ok" THEN V(Normalised(Chars(p.s)), "whitespace-" \o name) ELSE {})
\* NV_C16_MODE = "global": only the history property (M6) over the WHOLE observation file (one judge);
\*               "local":  only the per-observation clauses (the file may be sharded);  "all": both
Mode == IOEnv.NV_C16_MODE
Viol(o) ==
  IF "texts" \notin DOMAIN o.o THEN {"build-fail"} ELSE
  LET ts == o.o.texts  ok == OkTexts(o) IN
  (IF Mode = "global" THEN {} ELSE
     V(ok = 1..Len(ts), "panic")
     \cup UNION {V(Normalised(Chars(ts[i].s)), "whitespace") : i \in ok}
     \cup UNION {V(J2N(ts[i].pv) = J2N(o.c.v), "harness-built-other-value") : i \in ok}
     \cup (IF ok = {} THEN {} ELSE
             LET f == CHOOSE i \in ok : TRUE
                 tf == Tokens(ts[f].s)
             IN V(\A i \in ok \ {f} : ts[i].s = ts[f].s \/ (Len(ts[i].s) = Len(ts[f].s) /\ Tokens(ts[i].s) = tf), "equal-values-render-differently"))
     \cup UNION {PartViol(o.o.parts[f], f) : f \in DOMAIN o.o.parts})
  \cup (IF Mode = "local" THEN {} ELSE V(\A i \in ok : ts[i].s \notin Ambiguous, "two-values-one-text"))
\* the layout model on the iteration order this instance had
Drift(o) == IF "texts" \notin DOMAIN o.o \/ Mode = "global" \/ "exotic" \in DOMAIN o.c THEN {} ELSE
            LET ok == OkTexts(o)
                Ord(j) == CASE j.kind = "term" -> [kind |-> "term", v |-> J2O(j.v)]
                            [] j.kind = "sentence" -> [kind |-> "sentence", v |-> [t |-> J2O(j.v.t), p |-> j.v.p, st |-> j.v.st, tr |-> SeqOf(j.v.tr)]]
                            [] j.kind = "task" -> [kind |-> "task", v |-> [b |-> SeqOf(j.v.b), s |-> [t |-> J2O(j.v.s.t), p |-> j.v.s.p, st |-> j.v.s.st, tr |-> SeqOf(j.v.s.tr)]]]
            IN IF \E i \in ok : TyN(Ord(o.o.texts[i].pv)) # Chars(o.o.texts[i].s) THEN {"layout-model"} ELSE {}

Init == l = 1
Next == /\ l <= Len(Obs)
        /\ l' = l + 1
        /\ LET v == Viol(Obs[l]) IN v = {} \/ PrintT(<<"BAD", Obs[l].id, v>>)
        /\ LET d == Drift(Obs[l]) IN d = {} \/ PrintT(<<"DRIFT", Obs[l].id, d>>)
Done == /\ TLCGet("stats").diameter - 1 = Len(Obs)
        /\ PrintT(<<"JUDGED", Len(Obs)>>)
=============================================================================
