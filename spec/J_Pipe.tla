-------------------------------- MODULE J_Pipe --------------------------------
(* Judge for the two pipelines (C03, C09, C10, C15 classification): the same text through the
   enum parser and through lexical parse + fold.
     always      both Ok => equal values                              (C03)
     expect      both must be Ok and denote the expected value        (C03 on well-formed text, C09, C10)
     only        "lex" / "enum": the expectation binds that pipeline only (Unicode whitespace is lexical-only)
     macros      the inline macros give the same values                                               *)
EXTENDS EnumParser, LexValues, TLCExt

Obs == ndJsonDeserialize(IOEnv.NV_OBS)
VARIABLE l
V(b, tag) == IF b THEN {} ELSE {tag}
HasF(r, f) == f \in DOMAIN r

Viol(o) ==
  IF HasF(o.o, "build") THEN {"build-fail"} ELSE
  LET e == o.o.e  f == o.o.f  lx == o.o.l
      want == HasF(o.c, "expect")
      only == IF HasF(o.c, "only") THEN o.c.only ELSE "both"
      ex == IF want THEN J2N(o.c.expect) ELSE [kind |-> "none"]
      pv == IF o.c.op = "pipe_v" THEN J2N(o.c.v) ELSE [kind |-> "none"]
      target == ex
      \* C03 states the EQUALITY of the two pipelines; that both return the value that was formatted is C01's statement, so for
      \* pipe_v (a well-formed text written by the enum formatter) only a difference between the pipelines is a violation and
      \* "both agree on something else" is reported as drift.  C09 / C10 texts carry the value they must denote (`expect`).
      bind == want
  IN V(e.r # "panic", "enum-panic") \cup V(lx.r # "panic", "lexical-panic") \cup V(f.r # "panic", "fold-panic")
     \cup V((e.r = "ok" /\ f.r = "ok") => J2N(e.v) = J2N(f.v), "pipelines-differ")
     \cup (IF o.c.op = "pipe_v" THEN V((e.r = "ok") = (lx.r = "ok" /\ f.r = "ok"), "pipelines-disagree-on-acceptance") ELSE {})
     \cup (IF bind /\ only \in {"both", "enum"} THEN V(e.r = "ok", "enum-rejects") \cup V(e.r = "ok" => J2N(e.v) = target, "enum-other-value") ELSE {})
     \cup (IF bind /\ only \in {"both", "lex"} THEN V(lx.r = "ok" /\ f.r = "ok", "lexical-rejects") \cup V(f.r = "ok" => J2N(f.v) = target, "fold-other-value") ELSE {})
     \cup (IF HasF(o.o, "me") /\ bind THEN V(o.o.me.r = "ok" /\ J2N(o.o.me.v) = target, "enum-macro")
                                            \cup V(o.o.ml.r = "ok" /\ lx.r = "ok" /\ J2LN(o.o.ml.v) = J2LN(lx.v), "lexical-macro") ELSE {})
\* pipe_l (text written by the lexical formatter for a lexical value): the two pipelines disagreeing on acceptance is reported as drift
Drift(o) ==
  IF HasF(o.o, "build") \/ HasF(o.c, "exotic") THEN {} ELSE
  LET m == Parse(Chars(o.o.s)) IN
  (IF m.r # o.o.e.r /\ o.o.e.r # "panic" THEN {"model-verdict"}
   ELSE IF m.r = "ok" /\ o.o.e.r = "ok" /\ MaskN(m.v, m.v) # MaskN(J2N(o.o.e.v), m.v) THEN {"model-value"} ELSE {})
  \cup (IF o.c.op = "pipe_l" /\ (o.o.e.r = "ok") # (o.o.f.r = "ok") THEN {"pipelines-disagree-on-acceptance"} ELSE {})
  \cup (IF o.c.op = "pipe_v" /\ ((o.o.e.r = "ok" /\ J2N(o.o.e.v) # J2N(o.c.v)) \/ (o.o.e.r # "ok" /\ o.o.f.r # "ok")) THEN {"both-pipelines-miss-the-formatted-value"} ELSE {})

Init == l = 1
Next == /\ l <= Len(Obs)
        /\ l' = l + 1
        /\ LET v == Viol(Obs[l]) IN v = {} \/ PrintT(<<"BAD", Obs[l].id, v>>)
        /\ LET d == Drift(Obs[l]) IN d = {} \/ PrintT(<<"DRIFT", Obs[l].id, d>>)
Done == /\ TLCGet("stats").diameter - 1 = Len(Obs)
        /\ PrintT(<<"JUDGED", Len(Obs)>>)
=============================================================================
