------------------------------ MODULE MC_Vocab ------------------------------
(* C03, vocabulary clause: for each shipped format the enum table and the lexical table of the
   same name describe the same keywords for every constructor; plus what the enum parser's
   first-match keyword tests silently rely on (no keyword tested earlier is a prefix of one
   tested later; the term openers are pairwise non-prefix).  Evaluated on the dumped tables. *)
EXTENDS Vocab

VARIABLE name
Init == name \in {"ascii", "latex", "han"}
Next == UNCHANGED name

IsPrefixStr(a, b) == LET x == Chars(a) y == Chars(b) IN Len(x) <= Len(y) /\ SubSeq(y, 1, Len(x)) = x
SameVocabulary ==
  LET e == RawE(name)  x == VocabAll.lex[name] IN
  /\ Rng(x.prefixes) = {e.prefix[k] : k \in AtomKinds}
  /\ Rng(x.connecters) = {e.conn[k] : k \in ConnKinds}
  /\ Cardinality({e.conn[k] : k \in ConnKinds}) = 12
  /\ Rng(x.copulas) = {e.cop[k] : k \in CopKinds}
  /\ Cardinality({e.cop[k] : k \in CopKinds}) = 13
  /\ Rng(x.punctuations) = {e.punct[k] : k \in PunctKinds}
  /\ Cardinality({e.punct[k] : k \in PunctKinds}) = 4
  /\ Cardinality({e.prefix[k] : k \in AtomKinds}) = 7
  /\ {<<b[1], b[2]>> : b \in Rng(x.set_brackets_prefix_order)} \ {<<"", "">>} = {<<e.se_l, e.se_r>>, <<e.si_l, e.si_r>>}
  /\ x.comp_l = e.comp_l /\ x.comp_r = e.comp_r /\ x.sep = e.sep /\ x.st_l = e.st_l /\ x.st_r = e.st_r
  /\ VocabAll.classes[name].name_class_diff = <<>>        \* same name alphabet, over ALL Unicode scalar values (computed by the dump)
  /\ x.truth_l = e.truth_l /\ x.truth_r = e.truth_r /\ x.truth_sep = e.truth_sep
  /\ x.bud_l = e.bud_l /\ x.bud_r = e.bud_r /\ x.bud_sep = e.bud_sep
  /\ {<<b[1], b[2]>> : b \in Rng(x.stamp_brackets_suffix_order)} =
        {<<"", e.stamp_l \o e.stamp[k] \o e.stamp_r>> : k \in {"Past", "Present", "Future"}} \cup {<<e.stamp_l \o e.stamp["Fixed"], e.stamp_r>>}
NoShadowing(order, table) == \A i \in 1..Len(order) : \A j \in (i + 1)..Len(order) : ~IsPrefixStr(table[order[i]], table[order[j]])
FirstMatchIsSafe ==
  LET e == RawE(name) IN
  /\ NoShadowing(ConnOrder, e.conn) /\ NoShadowing(CopOrder, e.cop) /\ NoShadowing(PunctOrder, e.punct) /\ NoShadowing(StampOrder, e.stamp)
  /\ NoShadowing(SubSeq(AtomOrder, 1, 6), e.prefix)                      \* the empty word prefix is tested last on purpose
  /\ \A a, b \in {e.se_l, e.si_l, e.comp_l, e.st_l} : a # b => ~IsPrefixStr(a, b)
=============================================================================
