-------------------------------- MODULE J_C02 --------------------------------
(* Judge for C02: the real lexical formatter's text, parsed by the real lexical parser, must be
   Ok and equal the value field for field (no canonicalisation: lexical terms are ordered). *)
EXTENDS LexParser, TLCExt

Obs == ndJsonDeserialize(IOEnv.NV_OBS)
VARIABLE l
V(b, tag) == IF b THEN {} ELSE {tag}

Viol(o) == IF "format" \notin DOMAIN o.o \/ o.o.format # "ok" THEN {"format-panic-or-build"}
           ELSE IF o.o.r.r # "ok" THEN {"parse-" \o o.o.r.r}
           ELSE V(J2LN(o.o.r.v) = J2LN(o.c.v), "roundtrip-differs") \cup V(o.o.entries_agree, "formatter-entry-points-write-different-texts")
Drift(o) == IF "format" \notin DOMAIN o.o \/ o.o.format # "ok" \/ "exotic" \in DOMAIN o.c THEN {}
            ELSE LET m == LexParse(Chars(o.o.s)) IN
                 IF m.r # o.o.r.r THEN {"model-verdict"}
                 ELSE IF m.r = "ok" /\ m.v # J2LN(o.o.r.v) THEN {"model-value"}
                 ELSE IF LFmt(J2LN(o.c.v)) # Chars(o.o.s) THEN {"model-format"} ELSE {}

Init == l = 1
Next == /\ l <= Len(Obs)
        /\ l' = l + 1
        /\ LET v == Viol(Obs[l]) IN v = {} \/ PrintT(<<"BAD", Obs[l].id, v>>)
        /\ LET d == Drift(Obs[l]) IN d = {} \/ PrintT(<<"DRIFT", Obs[l].id, d>>)
Done == /\ TLCGet("stats").diameter - 1 = Len(Obs)
        /\ PrintT(<<"JUDGED", Len(Obs)>>)
=============================================================================
